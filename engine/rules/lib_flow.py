"""Value provenance (A4), edge labels (A3), data dependence, constant-flag pruning,
live-drop analysis (A5) over the MIR facts.

Expressions are nested tuples:
  ("param", n)                      n-th MIR argument local (_n)
  ("const", ty, text)               scalar / other constant
  ("fn", def_path)                  function item constant
  ("call", name, (args...), bb)     result of a resolved call (name = resolved def path if known)
  ("icall", callee_expr, (args...), bb)   result of an indirect call
  ("proj", base, (elems...))        place projection; elems: "*", ".name", "@Variant", "[i]"
  ("ref", place_expr)               &place / &mut place / &raw place
  ("binop", op, a, b) ("unop", op, a) ("cast", kind, a, to)
  ("agg", label, (ops...))          aggregate (label = "Adt::Variant" | "tuple" | "closure:<path>" ...)
  ("discr", place_expr)
  ("multi", local)                  local with several definitions (loop carried / flag)
  ("unknown",)
"""
import re
import sys
sys.setrecursionlimit(20000)
import re as _re_mod
from collections import defaultdict, deque

re_try_branch = _re_mod.compile(r"^<core::(option::Option|result::Result)<.*> as core::ops::Try>::branch$")

from lib_facts import fn_name, place_str


class Flow:
    def __init__(self, body):
        self.b = body
        self.defs = defaultdict(list)   # local -> [(bb, idx|'term', kind, payload)]
        self.partial = set()            # locals assigned through a (deref-free) projection
        self.stores = []                # [(bb, idx, stmt)] stores through pointers
        self._index()
        self._memo = {}

    def _index(self):
        b = self.b
        for bb in range(b.n):
            for i, s in enumerate(b.stmts(bb)):
                if s["k"] == "assign":
                    p = s["place"]
                    if p["p"] and any(e["k"] == "deref" for e in p["p"]):
                        # store through a pointer held in the local: not a definition of the local
                        self.stores.append((bb, i, s))
                    elif p["p"]:
                        self.partial.add(p["l"])
                        self.defs[p["l"]].append((bb, i, "partial", s))
                    else:
                        self.defs[p["l"]].append((bb, i, "assign", s))
                elif s["k"] == "setdiscr":
                    self.partial.add(s["place"]["l"])
            t = b.term(bb)
            if t["k"] == "call":
                p = t["dest"]
                if p["p"] and any(e["k"] == "deref" for e in p["p"]):
                    self.stores.append((bb, "term", t))
                elif p["p"]:
                    self.partial.add(p["l"])
                    self.defs[p["l"]].append((bb, "term", "partial", t))
                else:
                    self.defs[p["l"]].append((bb, "term", "call", t))

    # ------------------------------------------------------------------ exprs
    def single_def(self, local):
        if local in self.partial:
            return None
        ds = self.defs.get(local, [])
        if local <= self.b.arg_count and local != 0:
            return None if ds else "param"
        if len(ds) == 1:
            return ds[0]
        return None

    def swapped_locals(self):
        """{local: (swap block, the other argument operand)} for locals with a single definition whose only `&mut` borrow is an
        argument of exactly one core::mem::swap call that dominates every other use of the local."""
        if getattr(self, "_swapped", None) is not None:
            return self._swapped
        out = {}
        b = self.b
        for bb in range(b.n):
            t = b.term(bb)
            if b.is_cleanup(bb) or t["k"] != "call" or t["func"]["k"] != "const" or "fn" not in t["func"] or \
                    t["func"]["fn"].get("def") != "core::mem::swap" or len(t["args"]) != 2:
                continue
            for k in (0, 1):
                a, o = t["args"][k], t["args"][1 - k]
                if a["k"] not in ("move", "copy") or a["place"]["p"]:
                    continue
                # &mut l, possibly through reborrows  &mut *(&mut l)
                cur = a["place"]["l"]
                rd = None
                for _ in range(4):
                    d_ = self.defs.get(cur, [])
                    if len(d_) != 1 or d_[0][2] != "assign" or d_[0][3]["rv"]["k"] != "ref" or not d_[0][3]["rv"].get("mut"):
                        rd = None
                        break
                    pp = d_[0][3]["rv"]["place"]["p"]
                    if not pp:
                        rd = d_
                        break
                    if [e_["k"] for e_ in pp] == ["deref"]:
                        cur = d_[0][3]["rv"]["place"]["l"]
                        continue
                    rd = None
                    break
                if rd is None:
                    continue
                l = rd[0][3]["rv"]["place"]["l"]
                if l <= b.arg_count or len(self.defs.get(l, [])) != 1 or l in self.partial:
                    continue
                ok = True
                for ub, ui, node in self.uses_of_local(l):
                    if ub == rd[0][0] and ui == rd[0][1]:
                        continue          # the borrow handed to the swap
                    if b.is_cleanup(ub):
                        continue          # unwind path
                    if not (b.dominates(bb, ub) and ub != bb):
                        ok = False
                if ok and l not in out:
                    out[l] = (bb, o)
        self._swapped = out
        return out

    def mut_borrowed_scalars(self):
        """Integer / bool locals of which a `&mut` (or `&raw mut`) borrow is taken: they may be updated through it."""
        if getattr(self, "_mbs", None) is None:
            out = set()
            for bb in range(self.b.n):
                for s_ in self.b.stmts(bb):
                    if s_["k"] == "assign" and s_["rv"]["k"] in ("ref", "rawptr") and s_["rv"].get("mut") and not s_["rv"]["place"]["p"]:
                        l = s_["rv"]["place"]["l"]
                        if self.b.locals[l] in ("usize", "u8", "u16", "u32", "u64", "u128", "isize", "i8", "i16", "i32", "i64", "i128", "bool"):
                            out.add(l)
            self._mbs = out
        return self._mbs

    def stored_through_ref(self):
        """Aggregate-built locals L for which this body contains a store `(*r).f.. = v` with r a (copy of a) `&mut L` /
        `&mut L.g`: the local is mutated in place after its construction."""
        if getattr(self, "_str", None) is None:
            out = set()
            b = self.b
            for (bb, i, s_) in self.stores:
                if i == "term":
                    continue
                p = s_["place"]
                if not p["p"] or p["p"][0]["k"] != "deref":
                    continue
                r = p["l"]
                for _ in range(6):
                    ds = [d for d in self.defs.get(r, []) if d[2] == "assign"]
                    if len(ds) != 1 or len(self.defs.get(r, [])) != 1:
                        break
                    rv = ds[0][3]["rv"]
                    if rv["k"] in ("ref", "rawptr") and rv.get("mut") and not any(e_["k"] == "deref" for e_ in rv["place"]["p"]):
                        tgt = rv["place"]["l"]
                        tds = self.defs.get(tgt, [])
                        if any(d[2] == "assign" and d[3]["rv"]["k"] == "aggregate" for d in tds) and tgt > b.arg_count:
                            out.add(tgt)
                        break
                    if rv["k"] == "use" and rv["op"]["k"] in ("copy", "move") and not rv["op"]["place"]["p"]:
                        r = rv["op"]["place"]["l"]
                        continue
                    if rv["k"] == "ref" and [e_["k"] for e_ in rv["place"]["p"]] == ["deref"]:
                        r = rv["place"]["l"]      # reborrow
                        continue
                    break
            self._str = out
        return self._str

    def local_expr(self, local, depth=0):
        key = ("L", local)
        if key in self._memo:
            return self._memo[key]
        if depth > 400:
            self._cuts = getattr(self, "_cuts", 0) + 1
            return ("unknown",)
        cuts0 = getattr(self, "_cuts", 0)
        self._memo[key] = ("multi", local)  # cycle guard
        sd = self.single_def(local)
        if sd not in (None, "param") and local in self.mut_borrowed_scalars():
            sd = None      # a counter updated through `&mut local`: its value is not its initialiser
        if sd not in (None, "param") and local in self.stored_through_ref():
            sd = None      # a struct local some field of which is written through `&mut local` (a budget struct with a
                           # `take(&mut self)` method read through): its fields are not the initialiser's operands
        sw = self.swapped_locals().get(local) if sd not in (None, "param") else None
        if sw is not None:
            # `let mut l = init; mem::swap(&mut place, &mut l);` -- afterwards l holds what mem::replace(&mut place, init)
            # would have returned (every other use of l comes after the swap)
            sbb, other = sw
            bb0, idx0, kind0, node0 = sd
            init = self.rvalue_expr(node0["rv"], bb0, depth + 1) if kind0 == "assign" else self.call_expr(node0, bb0, depth + 1)
            e = ("call", "core::mem::replace", (self.operand_expr(other, depth + 1), init), sbb)
            if getattr(self, "_cuts", 0) == cuts0:
                self._memo[key] = e
            else:
                del self._memo[key]
            return e
        if sd == "param":
            e = ("param", local)
        elif sd is None:
            e = ("multi", local)
        else:
            bb, idx, kind, node = sd
            if kind == "assign":
                e = self.rvalue_expr(node["rv"], bb, depth + 1)
            elif kind == "call":
                e = self.call_expr(node, bb, depth + 1)
            else:
                e = ("multi", local)
        if getattr(self, "_cuts", 0) != cuts0:
            del self._memo[key]       # depth-limited result: valid for this query only, never cached
            return e
        self._memo[key] = e
        return e

    def call_expr(self, t, bb, depth=0):
        f = t["func"]
        args = tuple(self.operand_expr(a, depth + 1) for a in t["args"])
        if f["k"] == "const" and "fn" in f:
            if f["fn"].get("def") in ("core::ops::FnMut::call_mut", "core::ops::Fn::call", "core::ops::FnOnce::call_once") and len(args) == 2:
                # a callable PARAMETER of the enclosing function applied to arguments: the same thing as a call through a
                # fn-pointer parameter (`poll_fn(task, cx)` whether poll_fn is `fn(..)` or `impl FnMut(..)`)
                rcv = strip_refs(args[0])
                if rcv[0] == "param" and args[1][0] == "agg" and args[1][1] == "tuple":
                    return ("icall", rcv, tuple(args[1][2]), bb)
            return ("call", fn_name(f["fn"]), args, bb)
        return ("icall", self.operand_expr(f, depth + 1), args, bb)

    def _agg_defs(self, local, depth=0):
        """All enum-aggregate rvalues that may define `local` (following plain whole-local copies/moves), or None when
        some definition is anything else."""
        if depth > 4 or local in self.partial:
            return None
        ds = self.defs.get(local, [])
        if not ds:
            return None
        out = []
        for (bb, idx, kind, node) in ds:
            if kind == "call" and node["func"]["k"] == "const" and "fn" in node["func"] and \
                    node["func"]["fn"].get("def") == "core::ops::FromResidual::from_residual" and not node["dest"]["p"]:
                # `?` leaving with the residual: None for an Option, Err(_) for a Result (payload not tracked)
                ty = node["dest"].get("ty", "")
                if ty.startswith("core::option::Option<"):
                    out.append({"k": "aggregate", "agg": "adt", "adt": "core::option::Option", "variant": "None", "ops": [], "fields": []})
                    continue
                if ty.startswith("core::result::Result<"):
                    out.append({"k": "aggregate", "agg": "adt", "adt": "core::result::Result", "variant": "Err", "ops": [], "fields": []})
                    continue
                return None
            if kind != "assign":
                return None
            rv = node["rv"]
            if rv["k"] == "aggregate" and rv.get("agg") == "adt" and rv.get("variant") is not None:
                out.append(rv)
            elif rv["k"] == "use" and rv["op"]["k"] in ("copy", "move") and not rv["op"]["place"]["p"]:
                sub = self._agg_defs(rv["op"]["place"]["l"], depth + 1)
                if sub is None:
                    return None
                out.extend(sub)
            else:
                return None
        return out

    def variant_payload_operand(self, p):
        """`(_x as V).i` where every definition of _x is an enum aggregate (possibly through whole-local moves) and exactly
        one of them can be meant: the operand stored as field i by that definition (and the remaining projection), else
        None.  When several definitions build V, a following `(.. as W).j` selects the one whose field i is itself built
        as W."""
        pr = p["p"]
        if len(pr) < 2 or pr[0]["k"] != "downcast" or pr[1]["k"] != "field":
            return None
        ds = self._agg_defs(p["l"])
        if not ds:
            return None
        cands = [rv for rv in ds if rv["variant"] == pr[0]["variant"] and pr[1]["i"] < len(rv["ops"])]
        if len(cands) > 1 and len(pr) >= 4 and pr[2]["k"] == "downcast":
            keep = []
            for rv in cands:
                op = rv["ops"][pr[1]["i"]]
                if op["k"] in ("copy", "move") and not op["place"]["p"]:
                    sub = self._agg_defs(op["place"]["l"])
                    if sub and any(r2["variant"] == pr[2]["variant"] for r2 in sub):
                        keep.append(rv)
            cands = keep
        if len(cands) != 1:
            return None
        return cands[0]["ops"][pr[1]["i"]], pr[2:]

    def variant_call_def(self, p):
        """`(_x as V)..` where _x has several definitions, all of them enum aggregates of OTHER variants except exactly one
        call: only that call can have produced variant V -> (call terminator, its block), else None."""
        pr = p["p"]
        if not pr or pr[0]["k"] != "downcast" or p["l"] in self.partial:
            return None
        ds = self.defs.get(p["l"], [])
        if len(ds) < 2:
            return None
        calls = []
        for (bb, idx, kind, node) in ds:
            if kind == "call":
                if node["func"]["k"] == "const" and "fn" in node["func"] and node["func"]["fn"].get("def") == "core::ops::FromResidual::from_residual":
                    continue     # yields None / Err, never a payload variant matched by name here
                calls.append((node, bb))
            elif kind == "assign" and node["rv"]["k"] == "aggregate" and node["rv"].get("agg") == "adt" and node["rv"].get("variant") is not None:
                if node["rv"]["variant"] == pr[0]["variant"]:
                    return None
            else:
                return None
        return calls[0] if len(calls) == 1 else None

    def place_expr(self, p, depth=0):
        vp = self.variant_payload_operand(p)
        if vp is not None and vp[0]["k"] in ("copy", "move"):
            op, rest = vp
            return self.place_expr({"l": op["place"]["l"], "p": list(op["place"]["p"]) + list(rest), "ty": p.get("ty")}, depth + 1)
        vc = self.variant_call_def(p)
        if vc is not None:
            base = self.call_expr(vc[0], vc[1], depth + 1)
            elems = []
            for e in p["p"]:
                k = e["k"]
                elems.append("*" if k == "deref" else ("." + e["name"]) if k == "field" else ("@" + e["variant"]) if k == "downcast"
                             else ("[_%d]" % e["local"]) if k == "index" else ("[%d]" % e["offset"]) if k == "constindex" else "<%s>" % k)
            return self.mk_proj(base, tuple(elems))
        base = self.local_expr(p["l"], depth + 1)
        elems = []
        for e in p["p"]:
            k = e["k"]
            if k == "deref":
                elems.append("*")
            elif k == "field":
                elems.append("." + e["name"])
            elif k == "downcast":
                elems.append("@" + e["variant"])
            elif k == "index":
                elems.append("[_%d]" % e["local"])
            elif k == "constindex":
                elems.append("[%d]" % e["offset"])
            else:
                elems.append("<%s>" % k)
        return self.mk_proj(base, tuple(elems))

    @staticmethod
    def mk_proj(base, elems):
        # flatten nested projections, cancel deref-of-ref, select fields of aggregates
        while elems:
            if base[0] == "proj":
                elems = base[2] + elems
                base = base[1]
                continue
            if base[0] == "ref" and elems[0] == "*":
                base = base[1]
                elems = elems[1:]
                continue
            if base[0] == "agg" and elems[0].startswith("."):
                # tuple / struct field selection
                label, ops = base[1], base[2]
                name = elems[0][1:]
                idx = None
                if name.isdigit() and int(name) < len(ops):
                    idx = int(name)
                elif len(base) > 3 and name in base[3]:
                    idx = base[3].index(name)
                if idx is not None and idx < len(ops):
                    base = ops[idx]
                    elems = elems[1:]
                    continue
            if base[0] == "call" and len(elems) >= 2 and elems[0] == "@Continue" and elems[1] == ".0" and base[2] and \
                    re_try_branch.search(base[1] or ""):
                # `x?` on an Option / Result: the Continue payload is x's Some / Ok payload
                elems = (("@Some" if "option::Option" in base[1] else "@Ok"), ".0") + tuple(elems[2:])
                base = base[2][0]
                continue
            if base[0] == "call" and len(elems) >= 2 and elems[0] == "@Some" and elems[1] == ".0" and base[2] and \
                    "Range" in (base[1] or "") and (base[1] or "").endswith("::next"):
                # the item of a one-element range `a..a + 1` is `a` (a helper that marks a range of slots, called for one slot)
                it = strip_refs(base[2][0])
                while it[0] == "call" and (it[1] or "").endswith("into_iter") and it[2]:
                    it = strip_refs(it[2][0])
                if it[0] == "agg" and it[1].endswith("Range::Range") and len(it[2]) == 2:
                    lo, hi = it[2]
                    if hi[0] == "proj" and hi[2] == (".0",):
                        hi = hi[1]
                    if hi[0] == "binop" and hi[1] in ("Add", "AddWithOverflow", "AddUnchecked") and hi[2] == lo and hi[3][0] == "const" and hi[3][2] == "1":
                        base = lo
                        elems = elems[2:]
                        continue
            if base[0] == "agg" and elems[0].startswith("@"):
                # downcast of a known aggregate: keep going if the variant matches
                if base[1].endswith("::" + elems[0][1:]):
                    elems = elems[1:]
                    continue
            break
        if not elems:
            return base
        return ("proj", base, tuple(elems))

    def operand_expr(self, o, depth=0):
        k = o["k"]
        if k in ("copy", "move"):
            return self.place_expr(o["place"], depth + 1)
        if k == "const":
            if "fn" in o:
                return ("fn", fn_name(o["fn"]))
            if "variant" in o:
                return ("const", o["ty"], o["variant"])
            if "bits" in o:
                if o.get("uneval"):
                    return ("const", o["ty"], o["bits"], o["uneval"])   # a named constant: value and the item it names
                return ("const", o["ty"], o["bits"])
            return ("const", o["ty"], o.get("s", "?"))
        return ("unknown",)

    def reaching_defs(self, local):
        """{block: frozenset of definition positions (bb, idx) of `local` reaching the ENTRY of block}."""
        cache = getattr(self, "_rd", None)
        if cache is None:
            cache = self._rd = {}
        if local in cache:
            return cache[local]
        b = self.b
        last = {}
        for (dbb, idx, kind, node) in self.defs.get(local, []):
            key = (dbb, -1 if idx == "term" else idx)
            if dbb not in last or (idx == "term") or (last[dbb][1] != "term" and key[1] > last[dbb][1]):
                last[dbb] = (dbb, idx)
        IN = {x: frozenset() for x in range(b.n)}
        changed = True
        while changed:
            changed = False
            for x in range(b.n):
                acc = set()
                for p in b.pred[x]:
                    acc |= {last[p]} if p in last else IN[p]
                fs = frozenset(acc)
                if fs != IN[x]:
                    IN[x] = fs
                    changed = True
        cache[local] = IN
        return IN

    def _reach_expr(self, o, bb, depth):
        """Expression of a plain multi-definition local used in block bb when exactly one of its definitions reaches bb and
        bb itself does not redefine it (e.g. `let mut n = v.len(); if n == 0 {..}` before the loop that steps n)."""
        if o["k"] not in ("copy", "move") or o["place"]["p"]:
            return None
        l = o["place"]["l"]
        ds = self.defs.get(l, [])
        if len(ds) < 2 or l in self.partial or l <= self.b.arg_count or any(d[0] == bb for d in ds):
            return None
        rd = self.reaching_defs(l).get(bb, frozenset())
        if len(rd) != 1:
            return None
        dbb, idx = next(iter(rd))
        for (b2, i2, kind, node) in ds:
            if b2 == dbb and i2 == idx:
                if kind == "assign":
                    return self.rvalue_expr(node["rv"], b2, depth + 1)
                if kind == "call":
                    return self.call_expr(node, b2, depth + 1)
        return None

    def _op_at(self, o, bb, depth):
        e = self._reach_expr(o, bb, depth) if depth < 50 else None
        return e if e is not None else self.operand_expr(o, depth + 1)

    def rvalue_expr(self, rv, bb, depth=0):
        k = rv["k"]
        if k == "use":
            return self._op_at(rv["op"], bb, depth)
        if k == "binop":
            return ("binop", rv["op"], self._op_at(rv["a"], bb, depth), self._op_at(rv["b"], bb, depth))
        if k in ("ref", "rawptr"):
            return ("ref", self.place_expr(rv["place"], depth + 1))
        if k == "cast":
            return ("cast", rv["kind"], self.operand_expr(rv["op"], depth + 1), rv["to"])
        if k == "binop":
            return ("binop", rv["op"], self.operand_expr(rv["a"], depth + 1), self.operand_expr(rv["b"], depth + 1))
        if k == "unop":
            return ("unop", rv["op"], self.operand_expr(rv["a"], depth + 1))
        if k == "discr":
            return ("discr", self.place_expr(rv["place"], depth + 1))
        if k == "aggregate":
            ops = tuple(self.operand_expr(o, depth + 1) for o in rv["ops"])
            if rv["agg"] == "adt":
                return ("agg", "%s::%s" % (rv["adt"], rv["variant"]), ops, tuple(rv.get("fields", [])))
            if rv["agg"] == "closure":
                return ("agg", "closure:" + rv["closure"], ops, ())
            return ("agg", rv["agg"], ops, ())
        if k == "repeat":
            return ("agg", "repeat", (self.operand_expr(rv["op"], depth + 1),), ())
        return ("unknown",)

    # ------------------------------------------------------------------ edge labels
    def edge_labels(self, bb):
        """For a switch block: dict succ_bb -> label.  Labels:
        ("variant", place_expr, name, place_json) | ("notvariants", place_expr, [names], place_json)
        ("bool", expr, True/False) | ("int", expr, value|None)"""
        t = self.b.term(bb)
        if t["k"] != "switch":
            return {}
        d = t["discr"]
        e = self.operand_expr(d)
        out = {}
        dty = d.get("place", {}).get("ty") if d["k"] != "const" else d.get("ty")
        # discriminant switch?
        discr_src = self._discr_source(d)
        if discr_src is not None:
            place_json, variants = discr_src
            pe = self.place_expr(place_json)
            vmap = {v[0]: v[1] for v in variants}
            named = []
            for val, tgt in t["targets"]:
                nm = vmap.get(val)
                named.append(nm)
                out.setdefault(tgt, []).append(("variant", pe, nm, place_json))
            rest = [v for v in vmap.values() if v not in named]
            if t["otherwise"] not in out or True:
                if len(rest) == 1:
                    out.setdefault(t["otherwise"], []).append(("variant", pe, rest[0], place_json))
                elif rest:
                    out.setdefault(t["otherwise"], []).append(("notvariants", pe, named, place_json))
            return out
        if dty == "bool":
            for val, tgt in t["targets"]:
                out.setdefault(tgt, []).append(("bool", e, val != "0"))
            vals = [v for v, _ in t["targets"]]
            if vals == ["0"]:
                out.setdefault(t["otherwise"], []).append(("bool", e, True))
            elif vals == ["1"]:
                out.setdefault(t["otherwise"], []).append(("bool", e, False))
            # `let w = a && b; if w {..}`: the switched local is `false` (constant) on the short-circuit arm and `b` on the
            # other -- its TRUE edge can only have come from `b` being true (dually for `||`)
            # `x.is_some()` / `is_none()` / `is_ok()` / `is_err()` / `is_ready()` / `is_pending()` of a plain local: the edge
            # also tells the variant of x (so `if item.is_some() { .. }` prunes like `if let Some(_) = item`)
            ps = self._probe_source(d)
            if ps is not None:
                pj, tv, fv = ps
                pe_ = self.place_expr(pj)
                for tgt, labs in list(out.items()):
                    for lab in list(labs):
                        if lab[0] == "bool" and lab[1] == e:
                            out[tgt].append(("variant", pe_, tv if lab[2] else fv, pj))
            sc = self._short_circuit_def(d)
            if sc is not None:
                cval, other = sc
                for tgt, labs in list(out.items()):
                    for lab in list(labs):
                        if lab[0] == "bool" and lab[1] == e and lab[2] is (not cval):
                            out[tgt].append(("bool", other, not cval))
            return out
        for val, tgt in t["targets"]:
            out.setdefault(tgt, []).append(("int", e, val))
        out.setdefault(t["otherwise"], []).append(("int", e, None))
        return out

    def _short_circuit_def(self, d):
        """switch operand = bool local with exactly two definitions, one a constant c and one a non-constant expression x:
        returns (c, x) -- on the edge where the local is `not c` the value is x's."""
        if d["k"] not in ("copy", "move") or d["place"]["p"]:
            return None
        l = d["place"]["l"]
        for _ in range(4):      # `_t = copy w; switch(_t)`
            ds_ = self.defs.get(l, [])
            if len(ds_) == 1 and ds_[0][2] == "assign" and ds_[0][3]["rv"]["k"] == "use" and \
                    ds_[0][3]["rv"]["op"]["k"] in ("copy", "move") and not ds_[0][3]["rv"]["op"]["place"]["p"]:
                l = ds_[0][3]["rv"]["op"]["place"]["l"]
            else:
                break
        ds = self.defs.get(l, [])
        if len(ds) != 2 or l in self.partial:
            return None
        consts, others = [], []
        for (bb, idx, kind, node) in ds:
            if kind == "assign" and node["rv"]["k"] == "use" and node["rv"]["op"]["k"] == "const" and "bits" in node["rv"]["op"]:
                consts.append(node["rv"]["op"]["bits"] != "0")
            elif kind == "assign":
                others.append(self.rvalue_expr(node["rv"], bb))
            elif kind == "call":
                others.append(self.call_expr(node, bb))
        if len(consts) == 1 and len(others) == 1:
            return consts[0], others[0]
        return None

    PROBES = {"core::option::Option::<T>::is_some": ("Some", "None"), "core::option::Option::<T>::is_none": ("None", "Some"),
              "core::result::Result::<T, E>::is_ok": ("Ok", "Err"), "core::result::Result::<T, E>::is_err": ("Err", "Ok"),
              "core::task::Poll::<T>::is_ready": ("Ready", "Pending"), "core::task::Poll::<T>::is_pending": ("Pending", "Ready")}

    def _probe_source(self, d):
        """switch operand = bool local single-assigned from a variant probe of `&<place without deref>`:
        (place_json, variant when true, variant when false)."""
        if d["k"] not in ("copy", "move") or d["place"]["p"]:
            return None
        sd = self.single_def(d["place"]["l"])
        if sd in (None, "param") or sd[2] != "call":
            return None
        t = sd[3]
        f = t["func"]
        if f["k"] != "const" or "fn" not in f or f["fn"]["def"] not in self.PROBES or not t["args"]:
            return None
        a = t["args"][0]
        if a["k"] not in ("copy", "move") or a["place"]["p"]:
            return None
        rd = self.single_def(a["place"]["l"])
        if rd in (None, "param") or rd[2] != "assign" or rd[3]["rv"]["k"] != "ref":
            return None
        pj = rd[3]["rv"]["place"]
        if any(el["k"] == "deref" for el in pj["p"]):
            return None
        tv, fv = self.PROBES[f["fn"]["def"]]
        return pj, tv, fv

    def _discr_source(self, d):
        """If switch operand is a local single-assigned from discriminant(place): (place_json, variants)."""
        if d["k"] not in ("copy", "move") or d["place"]["p"]:
            return None
        sd = self.single_def(d["place"]["l"])
        if sd in (None, "param"):
            # multi-def discriminant temps do occur (same local reused); accept if all defs are discr of same place
            ds = self.defs.get(d["place"]["l"], [])
            rvs = [x[3]["rv"] for x in ds if x[2] == "assign"]
            if rvs and all(r["k"] == "discr" for r in rvs) and len({place_str(r["place"]) for r in rvs}) == 1:
                return rvs[0]["place"], rvs[0]["variants"]
            return None
        bb, idx, kind, node = sd
        if kind == "assign" and node["rv"]["k"] == "discr":
            return node["rv"]["place"], node["rv"]["variants"]
        return None

    def alias_places(self, place, _depth=0):
        """Place JSONs denoting the same value as `place` through single-definition copies / moves / (re)borrows:
        `_n = move (_4 as Ready).0` makes `_n` an alias of `(_4 as Ready).0`; `_x = &_3` makes `(*_x)` an alias of `_3`.
        Returns a list starting with `place` itself."""
        out = [place]
        if _depth > 6:
            return out
        vp = self.variant_payload_operand(place)
        if vp is not None and vp[0]["k"] in ("copy", "move"):
            op, rest = vp
            out.extend(self.alias_places({"l": op["place"]["l"], "p": list(op["place"]["p"]) + list(rest), "ty": place["ty"]}, _depth + 1))
            return out
        sd = self.single_def(place["l"])
        if sd in (None, "param") or sd[2] != "assign":
            return out
        rv = sd[3]["rv"]
        proj = place["p"]
        src = None
        if rv["k"] == "use" and rv["op"]["k"] in ("copy", "move"):
            src = {"l": rv["op"]["place"]["l"], "p": rv["op"]["place"]["p"] + proj, "ty": place["ty"]}
        elif rv["k"] in ("ref", "rawptr") and proj and proj[0]["k"] == "deref":
            src = {"l": rv["place"]["l"], "p": rv["place"]["p"] + proj[1:], "ty": place["ty"]}
        if src is not None:
            out.extend(self.alias_places(src, _depth + 1))
        return out

    def alias_strs(self, place):
        seen = []
        for p in self.alias_places(place):
            s = place_str(p)
            if s not in seen:
                seen.append(s)
        return seen

    def variant_edges(self):
        """All (from_bb, to_bb, label) with discriminant labels in the body."""
        res = []
        for bb in range(self.b.n):
            for tgt, labels in self.edge_labels(bb).items():
                for lab in labels:
                    res.append((bb, tgt, lab))
        return res

    # ------------------------------------------------------------------ dependence
    def leaves(self, expr, expand_multi=True, _seen=None, out=None):
        """Collect leaf descriptors an expression is computed from (data dependence):
        ("param", n) ("call", name, bb) ("field", ".name") ("const", ty, text) ("fn", path)"""
        if out is None:
            out = set()
        if _seen is None:
            _seen = set()
        k = expr[0]
        if k == "param":
            out.add(expr)
        elif k == "const":
            out.add(expr)
        elif k == "fn":
            out.add(expr)
        elif k == "call":
            out.add(("call", expr[1], expr[3]))
            for a in expr[2]:
                self.leaves(a, expand_multi, _seen, out)
        elif k == "icall":
            out.add(("icall", expr[3]))
            self.leaves(expr[1], expand_multi, _seen, out)
            for a in expr[2]:
                self.leaves(a, expand_multi, _seen, out)
        elif k == "proj":
            for el in expr[2]:
                if el.startswith("."):
                    out.add(("field", el))
            self.leaves(expr[1], expand_multi, _seen, out)
        elif k == "ref":
            self.leaves(expr[1], expand_multi, _seen, out)
        elif k == "binop":
            self.leaves(expr[2], expand_multi, _seen, out)
            self.leaves(expr[3], expand_multi, _seen, out)
        elif k in ("unop",):
            self.leaves(expr[2], expand_multi, _seen, out)
        elif k == "cast":
            self.leaves(expr[2], expand_multi, _seen, out)
        elif k == "agg":
            for a in expr[2]:
                self.leaves(a, expand_multi, _seen, out)
        elif k == "discr":
            self.leaves(expr[1], expand_multi, _seen, out)
        elif k == "multi":
            out.add(("multi", expr[1]))
            if expand_multi and expr[1] not in _seen:
                _seen.add(expr[1])
                for (bb, idx, kind, node) in self.defs.get(expr[1], []):
                    if kind == "assign":
                        self.leaves(self.rvalue_expr(node["rv"], bb), expand_multi, _seen, out)
                    elif kind == "call":
                        self.leaves(self.call_expr(node, bb), expand_multi, _seen, out)
                    elif kind == "partial":
                        if "rv" in node:
                            self.leaves(self.rvalue_expr(node["rv"], bb), expand_multi, _seen, out)
                        else:
                            self.leaves(self.call_expr(node, bb), expand_multi, _seen, out)
        return out

    # ------------------------------------------------------------------ uses
    def uses_of_local(self, local):
        """[(bb, idx|'term', node)] where `local` appears as (the base of) an operand / place read."""
        res = []
        b = self.b

        def op_uses(o):
            return o["k"] in ("copy", "move") and o["place"]["l"] == local

        def place_uses(p):
            if p["l"] == local:
                return True
            return any(e["k"] == "index" and e["local"] == local for e in p["p"])

        for bb in range(b.n):
            for i, s in enumerate(b.stmts(bb)):
                if s["k"] != "assign":
                    continue
                rv = s["rv"]
                hit = False
                k = rv["k"]
                if k in ("use", "cast", "repeat") and op_uses(rv["op"]):
                    hit = True
                elif k in ("ref", "rawptr", "discr") and place_uses(rv["place"]):
                    hit = True
                elif k == "binop" and (op_uses(rv["a"]) or op_uses(rv["b"])):
                    hit = True
                elif k == "unop" and op_uses(rv["a"]):
                    hit = True
                elif k == "aggregate" and any(op_uses(o) for o in rv["ops"]):
                    hit = True
                # write through a projection of the local (e.g. (*_x).f = ..) is a use of _x
                if s["place"]["p"] and s["place"]["l"] == local:
                    hit = True
                if hit:
                    res.append((bb, i, s))
            t = b.term(bb)
            k = t["k"]
            hit = False
            if k == "call":
                if op_uses(t["func"]) or any(op_uses(a) for a in t["args"]):
                    hit = True
            elif k == "switch" and op_uses(t["discr"]):
                hit = True
            elif k == "drop" and place_uses(t["place"]):
                hit = True
            elif k == "assert" and op_uses(t["cond"]):
                hit = True
            if hit:
                res.append((bb, "term", t))
        return res


# ---------------------------------------------------------------------- constant-flag pruning (A3)

def const_flag_locals(body, flow):
    """bool locals all of whose definitions are boolean constants (drop flags, should_poll_stream)."""
    res = set()
    for l, ty in enumerate(body.locals):
        if ty != "bool" or l in flow.partial or l <= body.arg_count:
            continue
        ds = flow.defs.get(l, [])
        if not ds:
            continue
        ok = True
        for (bb, idx, kind, node) in ds:
            if kind != "assign":
                ok = False
                break
            rv = node["rv"]
            if not (rv["k"] == "use" and rv["op"]["k"] == "const" and "bits" in rv["op"]):
                ok = False
                break
        if ok:
            res.add(l)
    return res


def derived_flag_locals(body, flow, flags):
    """bool locals whose every definition is a plain copy/move of a constant-flag local."""
    res = {}
    for l, ty in enumerate(body.locals):
        if ty != "bool" or l in flags or l in flow.partial or l <= body.arg_count:
            continue
        ds = flow.defs.get(l, [])
        if not ds:
            continue
        srcs = set()
        ok = True
        for (bb, idx, kind, node) in ds:
            if kind != "assign":
                ok = False
                break
            rv = node["rv"]
            if rv["k"] == "use" and rv["op"]["k"] in ("copy", "move") and not rv["op"]["place"]["p"] and rv["op"]["place"]["l"] in flags:
                srcs.add(rv["op"]["place"]["l"])
            else:
                ok = False
                break
        if ok:
            res[l] = srcs
    return res


def feasible_cfg(body, flow):
    """Forward propagation of constant flag values; returns (succ_map, state_in) where succ_map[b] is
    the list of normal successors of b that are feasible under some reaching flag valuation.
    State: dict flag -> frozenset of possible values {0,1}; missing = unassigned (treated as both)."""
    flags = const_flag_locals(body, flow)
    BOTH = frozenset((0, 1))
    state_in = {0: {}}
    work = deque([0])
    feas = defaultdict(set)

    def join(a, b):
        out = {}
        for k in set(a) | set(b):
            out[k] = a.get(k, BOTH) | b.get(k, BOTH) if (k in a and k in b) else BOTH
        return out

    iters = 0
    while work:
        bb = work.popleft()
        iters += 1
        if iters > 20000:
            break
        st = dict(state_in[bb])
        for s in body.stmts(bb):
            if s["k"] == "assign" and not s["place"]["p"] and s["place"]["l"] in flags:
                st[s["place"]["l"]] = frozenset((int(s["rv"]["op"]["bits"]) & 1,))
        t = body.term(bb)
        outs = []
        if t["k"] == "switch" and t["discr"]["k"] in ("copy", "move") and not t["discr"]["place"]["p"] \
                and t["discr"]["place"]["l"] in flags:
            fl = t["discr"]["place"]["l"]
            vals = st.get(fl, BOTH)
            tv = {int(v): tgt for v, tgt in t["targets"]}
            for v in vals:
                tgt = tv.get(v, t["otherwise"])
                st2 = dict(st)
                st2[fl] = frozenset((v,))
                outs.append((tgt, st2))
        else:
            for s in body.normal_succ(bb):
                outs.append((s, st))
        for tgt, st2 in outs:
            feas[bb].add(tgt)
            if tgt not in state_in:
                state_in[tgt] = st2
                work.append(tgt)
            else:
                j = join(state_in[tgt], st2)
                if j != state_in[tgt]:
                    state_in[tgt] = j
                    work.append(tgt)
    return {b: sorted(v) for b, v in feas.items()}, state_in


def reach_in(succ_map, start, avoid=()):
    avoid = set(avoid)
    if start in avoid:
        return set()
    seen = {start}
    dq = deque([start])
    while dq:
        b = dq.popleft()
        for s in succ_map.get(b, []):
            if s not in seen and s not in avoid:
                seen.add(s)
                dq.append(s)
    return seen


# ---------------------------------------------------------------------- expression helpers

def expr_calls(expr, out=None):
    """All ("call", name, args, bb) nodes inside expr."""
    if out is None:
        out = []
    if not isinstance(expr, tuple) or not expr:
        return out
    if expr[0] == "call":
        out.append(expr)
        for a in expr[2]:
            expr_calls(a, out)
    elif expr[0] == "icall":
        expr_calls(expr[1], out)
        for a in expr[2]:
            expr_calls(a, out)
    elif expr[0] in ("proj", "ref", "discr"):
        expr_calls(expr[1], out)
    elif expr[0] == "binop":
        expr_calls(expr[2], out)
        expr_calls(expr[3], out)
    elif expr[0] in ("unop", "cast"):
        expr_calls(expr[2], out)
    elif expr[0] == "agg":
        for a in expr[2]:
            expr_calls(a, out)
    return out


import re as _re0
_PTR_IDENT = _re0.compile(r"^core::ptr::(mut_ptr|const_ptr)::<impl \*(mut|const) T>::(cast|cast_mut|cast_const)$|"
                          r"^core::ptr::NonNull::<T>::(as_ptr|new_unchecked|cast)$")


def strip_refs(expr):
    """Peel reference / reborrow / pointer-cast / identity wrappers to get at the underlying place/value."""
    IDENT = (
        "core::pin::Pin::<Ptr>::as_mut", "core::pin::Pin::<&'a mut T>::get_mut",
        "core::pin::Pin::<Ptr>::new", "core::pin::Pin::<Ptr>::new_unchecked",
        "core::pin::Pin::<&'a mut T>::get_unchecked_mut", "core::pin::Pin::<Ptr>::get_mut",
        "<core::pin::Pin<Ptr> as core::ops::DerefMut>::deref_mut", "<core::pin::Pin<Ptr> as core::ops::Deref>::deref",
        "core::pin::Pin::<Ptr>::as_ref", "core::pin::Pin::<&'a T>::get_ref",
        "core::pin::Pin::<Ptr>::into_inner", "core::pin::Pin::<Ptr>::into_inner_unchecked",
        "<core::mem::ManuallyDrop<T> as core::ops::Deref>::deref",
        "<core::mem::ManuallyDrop<T> as core::ops::DerefMut>::deref_mut",
        "core::mem::ManuallyDrop::<T>::new",
        "core::convert::identity",
    )
    while True:
        if expr[0] == "ref":
            expr = expr[1]
        elif expr[0] == "proj" and expr[2] == ("*",):
            expr = expr[1]
        elif expr[0] == "proj" and expr[2] and expr[2][0] == "*" and expr[1][0] in ("ref",):
            expr = Flow.mk_proj(expr[1], expr[2])
        elif expr[0] == "cast" and expr[1].startswith(("PtrToPtr", "Transmute", "PointerCoercion")):
            expr = expr[2]
        elif expr[0] == "call" and expr[1] in IDENT and expr[2]:
            expr = expr[2][0]
        elif expr[0] == "call" and expr[2] and expr[1] and _PTR_IDENT.search(expr[1]):
            expr = expr[2][0]
        elif expr[0] == "proj" and expr[2] and expr[2][0] in (".pointer", ".__pointer"):
            # Pin { pointer } field access
            expr = Flow.mk_proj(expr[1], expr[2][1:]) if len(expr[2]) > 1 else expr[1]
        else:
            return expr


def expr_str(e, depth=0):
    if depth > 8:
        return "..."
    k = e[0]
    if k == "param":
        return "arg%d" % e[1]
    if k == "const":
        return "%s" % (e[2],)
    if k == "fn":
        return "fn:%s" % e[1]
    if k == "call":
        return "%s(%s)" % (e[1].split("::")[-1] if e[1] else "?", ", ".join(expr_str(a, depth + 1) for a in e[2]))
    if k == "icall":
        return "(%s)(%s)" % (expr_str(e[1], depth + 1), ", ".join(expr_str(a, depth + 1) for a in e[2]))
    if k == "proj":
        return "%s%s" % (expr_str(e[1], depth + 1), "".join(e[2]))
    if k == "ref":
        return "&" + expr_str(e[1], depth + 1)
    if k == "binop":
        return "%s(%s, %s)" % (e[1], expr_str(e[2], depth + 1), expr_str(e[3], depth + 1))
    if k == "unop":
        return "%s(%s)" % (e[1], expr_str(e[2], depth + 1))
    if k == "cast":
        return "(%s as %s)" % (expr_str(e[2], depth + 1), e[3])
    if k == "agg":
        return "%s{%s}" % (e[1].split("::", 1)[-1], ", ".join(expr_str(a, depth + 1) for a in e[2]))
    if k == "discr":
        return "discr(%s)" % expr_str(e[1], depth + 1)
    if k == "multi":
        return "var_%d" % e[1]
    return "?"


# ---------------------------------------------------------------------- variant facts (A3)

def variant_facts(body, flow):
    """Forward must-analysis: for every block the set of (place_str, variant_name) facts that hold
    on entry on every normal path (established by discriminant switches, killed by re-definition of
    the base local).  Returns dict bb -> frozenset."""
    TOP = None
    state = {0: frozenset()}
    work = deque([0])
    labels = {bb: flow.edge_labels(bb) for bb in range(body.n) if body.term(bb)["k"] == "switch"}

    def kill(facts, local):
        pre = "_%d" % local
        out = set()
        for (p, v) in facts:
            # place strings start with the base local possibly wrapped: find base token
            if _base_local(p) == pre:
                continue
            out.add((p, v))
        return frozenset(out)

    it = 0
    while work:
        bb = work.popleft()
        it += 1
        if it > 50000:
            break
        facts = state[bb]
        for s in body.stmts(bb):
            if s["k"] == "assign":
                facts = kill(facts, s["place"]["l"]) if not s["place"]["p"] else facts
                v_ = _assigned_variant(s)
                src_ = _copied_local(s)
                if v_ is None and src_ is not None:
                    for (p_, vv_) in facts:
                        if p_ == "_%d" % src_:
                            v_ = vv_
                if v_ is not None:
                    facts = frozenset(set(facts) | {("_%d" % s["place"]["l"], v_)})
        t = body.term(bb)
        outs = []
        if t["k"] == "switch":
            labs = labels.get(bb, {})
            for s in body.normal_succ(bb):
                f2 = set(facts)
                for lab in labs.get(s, []):
                    if lab[0] == "variant" and lab[2] is not None:
                        for ps_ in flow.alias_strs(lab[3]):
                            f2.add((ps_, lab[2]))
                # an edge reached under two different labels (same target) gives no fact
                if len([l for l in labs.get(s, []) if l[0] in ("variant", "notvariants")]) > 1:
                    f2 = set(facts)
                outs.append((s, frozenset(f2)))
        else:
            f2 = facts
            if t["k"] == "call" and not t["dest"]["p"]:
                f2 = kill(facts, t["dest"]["l"])
            for s in body.normal_succ(bb):
                outs.append((s, f2))
        for s, f2 in outs:
            if s not in state:
                state[s] = f2
                work.append(s)
            else:
                j = state[s] & f2
                if j != state[s]:
                    state[s] = j
                    work.append(s)
    return state


_ENUMS_WITH_VARIANTS = ("core::option::Option", "core::result::Result", "core::task::Poll", "core::ops::ControlFlow")


def _assigned_variant(stmt):
    """`_x = Enum::Variant{..}` assigned to a whole local: the variant name (for std enums and crate enums)."""
    if stmt["k"] != "assign" or stmt["place"]["p"]:
        return None
    rv = stmt["rv"]
    if rv["k"] == "aggregate" and rv.get("agg") == "adt" and rv.get("variant") and rv.get("adt") and rv["variant"] != rv["adt"].split("::")[-1]:
        return rv["variant"]
    return None


def _copied_local(stmt):
    """`_x = copy/move _y` (both whole locals): returns y, else None."""
    if stmt["k"] != "assign" or stmt["place"]["p"]:
        return None
    rv = stmt["rv"]
    if rv["k"] == "use" and rv["op"]["k"] in ("copy", "move") and not rv["op"]["place"]["p"]:
        return rv["op"]["place"]["l"]
    return None


def _reroot_knowledge(vk, stmt):
    """Knowledge about locals moved into `_x = move _y` / `_x = Enum::V(move _y, ..)` restated for the new place:
    facts on `_y...` become facts on `_x...` / `(_x as V).i...`."""
    import re as _re
    out = {}
    if stmt["k"] != "assign" or stmt["place"]["p"]:
        return out
    l = stmt["place"]["l"]
    rv = stmt["rv"]
    pairs = []
    if rv["k"] == "use" and rv["op"]["k"] in ("copy", "move") and not rv["op"]["place"]["p"]:
        pairs.append((rv["op"]["place"]["l"], "_%d" % l))
    elif rv["k"] == "aggregate" and rv.get("agg") == "adt" and rv.get("variant") and rv.get("adt") and rv["variant"] != rv["adt"].split("::")[-1]:
        for i, op in enumerate(rv["ops"]):
            if op["k"] in ("copy", "move") and not op["place"]["p"]:
                fname = (rv.get("fields") or [str(i)] * (i + 1))[i] if i < len(rv.get("fields") or []) else str(i)
                pairs.append((op["place"]["l"], "(_%d as %s).%s" % (l, rv["variant"], fname)))
    for src, new in pairs:
        pat = _re.compile(r"_%d\b" % src)
        for p, v in vk.items():
            if _base_local(p) == "_%d" % src:
                out[pat.sub(lambda m_: new, p, count=1)] = v
    return out


def _base_local(pstr):
    import re as _re
    m = _re.search(r"_(\d+)", pstr)
    return "_" + m.group(1) if m else None


def blocks_with(vfacts, required):
    """Blocks whose entry facts include all of `required` (iterable of (place_str, variant))."""
    req = set(required)
    return {bb for bb, f in vfacts.items() if req <= f}


def region_entries(body, region):
    """Blocks of `region` with a normal predecessor outside it (or the entry block)."""
    pred = body.pred
    out = set()
    for b in region:
        if b == 0 or any(p not in region for p in pred[b]):
            out.add(b)
    return out


# ---------------------------------------------------------------------- path enumeration (A6)

def enumerate_paths(body, succ_map=None, start=0, max_paths=20000, loop_visits=1):
    """All normal entry->return paths visiting each block at most `loop_visits` times (back edges are
    followed at most that often).  Paths ending in diverging calls / unreachable are yielded with
    kind 'diverge'.  Yields (kind, [blocks])."""
    if succ_map is None:
        succ_map = {b: body.normal_succ(b) for b in range(body.n)}
    out = []
    stack = [(start, [start], {start: 1})]
    while stack:
        bb, path, cnt = stack.pop()
        t = body.term(bb)
        succs = succ_map.get(bb, [])
        if t["k"] == "return":
            out.append(("return", path))
        elif not succs:
            out.append(("diverge", path))
        else:
            for s in succs:
                if cnt.get(s, 0) >= loop_visits:
                    continue
                c2 = dict(cnt)
                c2[s] = c2.get(s, 0) + 1
                stack.append((s, path + [s], c2))
        if len(out) > max_paths:
            raise RuntimeError("path explosion in %s" % body.path)
    return out


def self_field_stores(body, flow, self_param=1):
    """[(bb, idx, field_name, value_expr)] statements storing into a field reached from the self parameter."""
    res = []
    for (bb, i, s) in flow.stores:
        if i == "term" or body.is_cleanup(bb):
            continue
        pe = flow.place_expr(s["place"])
        if pe[0] == "proj" and strip_refs(pe[1])[0] == "param" and pe[2] and pe[2][-1].startswith("."):
            root = strip_refs(pe[1])
            res.append((bb, i, pe[2][-1], flow.rvalue_expr(s["rv"], bb), root[1], pe))
        elif pe[0] == "proj" and pe[2] and pe[2][-1].startswith("."):
            base = strip_refs(pe[1])
            # through a Pin<&mut Self> deref_mut etc.
            while base[0] == "proj":
                base = strip_refs(base[1])
            if base[0] == "param":
                res.append((bb, i, pe[2][-1], flow.rvalue_expr(s["rv"], bb), base[1], pe))
    return res


def is_inc_of(expr, field, by=None):
    """expr == field +/- const (after the overflow-check tuple projection).  Returns +k / -k or None."""
    e = expr
    if e[0] == "proj" and e[2] == (".0",):
        e = e[1]
    if e[0] == "multi":
        return None
    if e[0] == "binop" and e[1] in ("Add", "AddWithOverflow", "Sub", "SubWithOverflow", "AddUnchecked", "SubUnchecked"):
        a, b = e[2], e[3]
        if a[0] == "proj" and a[2] and a[2][-1] == field and b[0] == "const":
            try:
                k = int(b[2])
            except ValueError:
                return None
            return k if e[1].startswith("Add") else -k
    # field.saturating_sub(1) / wrapping_add(1) / checked_add(1).unwrap(): the same step on every state in which the plain
    # operator does not overflow
    if e[0] == "call" and _re_mod.search(r"core::option::Option::<T>::(unwrap|expect|unwrap_unchecked)$", e[1] or "") and e[2]:
        e = e[2][0]
    if e[0] == "call" and len(e[2]) == 2:
        m = _re_mod.search(r"core::num::<impl u\w+>::(?:saturating|wrapping|unchecked|checked|strict)_(add|sub)$", e[1] or "")
        a, b = e[2][0], e[2][1]
        if m and a[0] == "proj" and a[2] and a[2][-1] == field and b[0] == "const":
            try:
                k = int(b[2])
            except ValueError:
                return None
            return k if m.group(1) == "add" else -k
    return None


def first_entries(body, flow, start, region, succ_map=None):
    """Blocks of `region` that are reached first on some feasible normal path from `start`
    (search does not continue through region blocks)."""
    if succ_map is None:
        succ_map, _ = feasible_cfg(body, flow)
    region = set(region)
    seen = {start}
    dq = deque([start])
    ents = set()
    while dq:
        b = dq.popleft()
        for s in succ_map.get(b, []):
            if s in region:
                ents.add(s)
                continue
            if s not in seen:
                seen.add(s)
                dq.append(s)
    return ents


def flag_search(body, flow, start, stop=(), init=None, max_states=200000):
    """Path-sensitive search over (block, constant-flag valuation, known enum variants) states from `start`
    on normal edges.  Does not expand blocks in `stop` (they are reported as hit).  Flags unknown at `start`
    are taken from `init` (dict) or from the join computed by feasible_cfg at `start`; variant knowledge
    starts from the must-facts at `start`.  Discriminant switches on a place whose variant is already
    known on the path only follow the matching edge.
    Returns (visited_blocks, hit_stop_blocks)."""
    flags = const_flag_locals(body, flow)
    if init is None:
        _, st_in = feasible_cfg(body, flow)
        init = {k: v for k, v in st_in.get(start, {}).items()}
    vinit = dict(variant_facts(body, flow).get(start, frozenset()))
    stop = set(stop)
    labels = {bb: flow.edge_labels(bb) for bb in range(body.n) if body.term(bb)["k"] == "switch"}

    def freeze(d, v):
        return (tuple(sorted((k, tuple(sorted(x))) for k, x in d.items())), tuple(sorted(v.items())))

    def kill(v, local):
        pre = "_%d" % local
        return {p: x for p, x in v.items() if _base_local(p) != pre}

    seen = set()
    visited = set()
    hits = set()
    dq = deque([(start, dict(init), vinit)])
    while dq:
        bb, st, vk = dq.popleft()
        key = (bb, freeze(st, vk))
        if key in seen:
            continue
        seen.add(key)
        if len(seen) > max_states:
            raise RuntimeError("flag_search state explosion in %s" % body.path)
        visited.add(bb)
        st = dict(st)
        vk = dict(vk)
        for s in body.stmts(bb):
            if s["k"] == "assign" and not s["place"]["p"]:
                if s["place"]["l"] in flags:
                    st[s["place"]["l"]] = frozenset((int(s["rv"]["op"]["bits"]) & 1,))
                src_ = _copied_local(s)
                carried = vk.get("_%d" % src_) if src_ is not None else None
                vk = kill(vk, s["place"]["l"])
                v_ = _assigned_variant(s) or carried
                if v_ is not None:
                    vk["_%d" % s["place"]["l"]] = v_
        t = body.term(bb)
        outs = []
        if t["k"] == "switch" and t["discr"]["k"] in ("copy", "move") and not t["discr"]["place"]["p"] \
                and t["discr"]["place"]["l"] in flags:
            fl_ = t["discr"]["place"]["l"]
            vals = st.get(fl_, frozenset((0, 1)))
            tv = {int(v): tgt for v, tgt in t["targets"]}
            for v in vals:
                st2 = dict(st)
                st2[fl_] = frozenset((v,))
                outs.append((tv.get(v, t["otherwise"]), st2, vk))
        elif t["k"] == "switch" and bb in labels and any(l[0] in ("variant", "notvariants") for ls in labels[bb].values() for l in ls):
            for tgt in body.normal_succ(bb):
                labs = [l for l in labels[bb].get(tgt, []) if l[0] in ("variant", "notvariants")]
                feasible = False
                vk2 = dict(vk)
                for lab in labs:
                    als = flow.alias_strs(lab[3])
                    known = None
                    for p in als:
                        if vk.get(p) is not None:
                            known = vk.get(p)
                            break
                    if lab[0] == "variant":
                        if known is None or known == lab[2]:
                            feasible = True
                            if len(labs) == 1 and lab[2] is not None:
                                for p in als:
                                    vk2[p] = lab[2]
                    else:
                        if known is None or known not in lab[2]:
                            feasible = True
                if not labs:
                    feasible = True
                if feasible:
                    outs.append((tgt, st, vk2))
        else:
            vk2 = vk
            if t["k"] == "call" and not t["dest"]["p"]:
                vk2 = kill(vk, t["dest"]["l"])
                if t["func"]["k"] == "const" and "fn" in t["func"] and t["func"]["fn"].get("def") == "core::ops::Try::branch" and \
                        t["args"] and t["args"][0]["k"] in ("move", "copy"):
                    # `x?`: what is known about x decides the ControlFlow variant (std's Try impls for Option, Result and
                    # Poll<Option<Result>>)
                    ap = place_str(t["args"][0]["place"])
                    dp = "_%d" % t["dest"]["l"]
                    aty = (t["func"]["fn"].get("res") or "")[1:]      # "<Self as core::ops::Try>::branch": the resolved Self type
                    v0 = vk.get(ap)
                    if aty.startswith("core::option::Option<") and v0 in ("Some", "None"):
                        vk2[dp] = "Continue" if v0 == "Some" else "Break"
                    elif aty.startswith("core::result::Result<") and v0 in ("Ok", "Err"):
                        vk2[dp] = "Continue" if v0 == "Ok" else "Break"
                    elif aty.startswith("core::task::Poll<core::option::Option<core::result::Result<"):
                        v1 = vk.get("(%s as Ready).0" % ap)
                        v2 = vk.get("((%s as Ready).0 as Some).0" % ap)
                        if v0 == "Pending":
                            vk2[dp] = "Continue"
                            vk2["(%s as Continue).0" % dp] = "Pending"
                        elif v0 == "Ready" and v1 == "None":
                            vk2[dp] = "Continue"
                            vk2["(%s as Continue).0" % dp] = "Ready"
                            vk2["((%s as Continue).0 as Ready).0" % dp] = "None"
                        elif v0 == "Ready" and v1 == "Some" and v2 == "Ok":
                            vk2[dp] = "Continue"
                            vk2["(%s as Continue).0" % dp] = "Ready"
                            vk2["((%s as Continue).0 as Ready).0" % dp] = "Some"
                        elif v0 == "Ready" and v1 == "Some" and v2 == "Err":
                            vk2[dp] = "Break"
                        elif v0 == "Ready":
                            # Ok or Err not known yet: facts about the Continue payload hold whenever that payload exists
                            vk2["(%s as Continue).0" % dp] = "Ready"
                            if v1 in ("Some", "None"):
                                vk2["((%s as Continue).0 as Ready).0" % dp] = v1
                if t["func"]["k"] == "const" and "fn" in t["func"] and t["func"]["fn"].get("def") == "core::ops::FromResidual::from_residual":
                    # leaving through `?`: an Option becomes None, a Result becomes Err
                    ty_ = t["dest"].get("ty", "")
                    if ty_.startswith("core::option::Option<"):
                        vk2["_%d" % t["dest"]["l"]] = "None"
                    elif ty_.startswith("core::result::Result<"):
                        vk2["_%d" % t["dest"]["l"]] = "Err"
            for s in body.normal_succ(bb):
                outs.append((s, st, vk2))
        for tgt, st2, vk2 in outs:
            if tgt in stop:
                hits.add(tgt)
                continue
            dq.append((tgt, st2, vk2))
    return visited, hits


def first_entries(body, flow, start, region, succ_map=None):  # noqa: F811  (path-sensitive version)
    """Blocks of `region` reached first on some flag-feasible normal path from `start`."""
    _, hits = flag_search(body, flow, start, stop=region)
    return hits


def must_pass_flags(body, flow, src, dsts, via, avoid=()):
    """Path-sensitive must-pass-through: no flag-feasible normal path from src reaches a block of dsts
    without entering a block of via (paths entering `avoid` are ignored)."""
    if src in set(via):
        return True
    visited, hits = flag_search(body, flow, src, stop=set(via) | set(avoid))
    return not (visited & set(dsts))


# ---------------------------------------------------------------------- sensitive path enumeration

import os as _os
EXTRA_VISITS = int(_os.environ.get("FB_EXTRA_VISITS", "0") or 0)   # thorough tier: one more unrolling of every loop


def sensitive_paths(body, flow, loop_visits=2, max_paths=200000, start=0):
    """Enumerate normal entry->return paths that are feasible w.r.t. constant flags (and plain copies of
    them) and enum-variant knowledge, visiting each block at most `loop_visits` times.
    Yields (kind, path, knowledge) where knowledge[i] is the dict place_str -> variant known at entry of
    path[i] on this path, kind in {"return", "diverge"}."""
    loop_visits += EXTRA_VISITS
    flags = const_flag_locals(body, flow)
    derived = derived_flag_locals(body, flow, flags)
    labels = {bb: flow.edge_labels(bb) for bb in range(body.n) if body.term(bb)["k"] == "switch"}
    BOTH = frozenset((0, 1))

    def kill(v, local):
        pre = "_%d" % local
        return {p: x for p, x in v.items() if _base_local(p) != pre}

    out = []
    stack = [(start, [start], [dict()], {}, {}, {start: 1})]
    while stack:
        bb, path, know, st, vk, cnt = stack.pop()
        st = dict(st)
        vk = dict(vk)
        for s in body.stmts(bb):
            if s["k"] == "assign" and not s["place"]["p"]:
                l = s["place"]["l"]
                if l in flags:
                    st[l] = frozenset((int(s["rv"]["op"]["bits"]) & 1,))
                elif l in derived:
                    src = s["rv"]["op"]["place"]["l"]
                    st[l] = st.get(src, BOTH)
                src_ = _copied_local(s)
                carried = vk.get("_%d" % src_) if src_ is not None else None
                rerooted = _reroot_knowledge(vk, s)
                vk = kill(vk, l)
                v_ = _assigned_variant(s) or carried
                if v_ is not None:
                    vk["_%d" % l] = v_
                vk.update(rerooted)
        t = body.term(bb)
        outs = []
        if t["k"] == "return":
            out.append(("return", path, know))
        elif t["k"] == "switch" and t["discr"]["k"] in ("copy", "move") and not t["discr"]["place"]["p"] \
                and (t["discr"]["place"]["l"] in flags or t["discr"]["place"]["l"] in derived):
            fl_ = t["discr"]["place"]["l"]
            vals = st.get(fl_, BOTH)
            tv = {int(v): tgt for v, tgt in t["targets"]}
            for v in vals:
                st2 = dict(st)
                st2[fl_] = frozenset((v,))
                outs.append((tv.get(v, t["otherwise"]), st2, vk))
        elif t["k"] == "switch" and bb in labels and any(l[0] in ("variant", "notvariants") for ls in labels[bb].values() for l in ls):
            for tgt in body.normal_succ(bb):
                labs = [l for l in labels[bb].get(tgt, []) if l[0] in ("variant", "notvariants")]
                feasible = not labs
                vk2 = dict(vk)
                for lab in labs:
                    als = flow.alias_strs(lab[3])
                    known = None
                    for p in als:
                        if vk.get(p) is not None:
                            known = vk.get(p)
                            break
                    if lab[0] == "variant":
                        if known is None or known == lab[2]:
                            feasible = True
                            if len(labs) == 1 and lab[2] is not None:
                                for p in als:
                                    vk2[p] = lab[2]
                    else:
                        if known is None or known not in lab[2]:
                            feasible = True
                if feasible:
                    outs.append((tgt, st, vk2))
        else:
            vk2 = vk
            if t["k"] == "call" and not t["dest"]["p"]:
                vk2 = kill(vk, t["dest"]["l"])
                if t["func"]["k"] == "const" and "fn" in t["func"] and t["func"]["fn"].get("def") == "core::ops::Try::branch" and \
                        t["args"] and t["args"][0]["k"] in ("move", "copy"):
                    # `x?`: what is known about x decides the ControlFlow variant (std's Try impls for Option, Result and
                    # Poll<Option<Result>>)
                    ap = place_str(t["args"][0]["place"])
                    dp = "_%d" % t["dest"]["l"]
                    aty = (t["func"]["fn"].get("res") or "")[1:]      # "<Self as core::ops::Try>::branch": the resolved Self type
                    v0 = vk.get(ap)
                    if aty.startswith("core::option::Option<") and v0 in ("Some", "None"):
                        vk2[dp] = "Continue" if v0 == "Some" else "Break"
                    elif aty.startswith("core::result::Result<") and v0 in ("Ok", "Err"):
                        vk2[dp] = "Continue" if v0 == "Ok" else "Break"
                    elif aty.startswith("core::task::Poll<core::option::Option<core::result::Result<"):
                        v1 = vk.get("(%s as Ready).0" % ap)
                        v2 = vk.get("((%s as Ready).0 as Some).0" % ap)
                        if v0 == "Pending":
                            vk2[dp] = "Continue"
                            vk2["(%s as Continue).0" % dp] = "Pending"
                        elif v0 == "Ready" and v1 == "None":
                            vk2[dp] = "Continue"
                            vk2["(%s as Continue).0" % dp] = "Ready"
                            vk2["((%s as Continue).0 as Ready).0" % dp] = "None"
                        elif v0 == "Ready" and v1 == "Some" and v2 == "Ok":
                            vk2[dp] = "Continue"
                            vk2["(%s as Continue).0" % dp] = "Ready"
                            vk2["((%s as Continue).0 as Ready).0" % dp] = "Some"
                        elif v0 == "Ready" and v1 == "Some" and v2 == "Err":
                            vk2[dp] = "Break"
                        elif v0 == "Ready":
                            # Ok or Err not known yet: facts about the Continue payload hold whenever that payload exists
                            vk2["(%s as Continue).0" % dp] = "Ready"
                            if v1 in ("Some", "None"):
                                vk2["((%s as Continue).0 as Ready).0" % dp] = v1
                if t["func"]["k"] == "const" and "fn" in t["func"] and t["func"]["fn"].get("def") == "core::ops::FromResidual::from_residual":
                    # leaving through `?`: an Option becomes None, a Result becomes Err
                    ty_ = t["dest"].get("ty", "")
                    if ty_.startswith("core::option::Option<"):
                        vk2["_%d" % t["dest"]["l"]] = "None"
                    elif ty_.startswith("core::result::Result<"):
                        vk2["_%d" % t["dest"]["l"]] = "Err"
            succs = body.normal_succ(bb)
            if not succs and t["k"] != "return":
                out.append(("diverge", path, know))
            for s in succs:
                outs.append((s, st, vk2))
        for tgt, st2, vk2 in outs:
            if cnt.get(tgt, 0) >= loop_visits:
                continue
            if body.term(tgt)["k"] == "unreachable" and not body.stmts(tgt):
                continue      # the compiler's arm for "no such variant": never executed
            c2 = dict(cnt)
            c2[tgt] = c2.get(tgt, 0) + 1
            stack.append((tgt, path + [tgt], know + [vk2], st2, vk2, c2))
        if len(out) > max_paths:
            raise RuntimeError("sensitive_paths explosion in %s" % body.path)
    return out


# ---------------------------------------------------------------------- per-path evaluation

class PathEval(Flow):
    """Expressions evaluated along one concrete CFG path: every local resolves to its latest definition on the
    path (so multi-definition locals such as `upper` in size_hint get a definite expression per path)."""

    def __init__(self, body, path):
        Flow.__init__(self, body)
        self.path = path
        self.env = {}
        self._run()

    def _run(self):
        b = self.b
        for bb in self.path:
            for s in b.stmts(bb):
                if s["k"] == "assign" and not s["place"]["p"]:
                    self.env[s["place"]["l"]] = self.rvalue_expr(s["rv"], bb)
                elif s["k"] == "assign" and s["place"]["p"] and not any(e["k"] == "deref" for e in s["place"]["p"]):
                    # field-wise initialisation of a local aggregate: keep as unknown-but-present
                    self.env.setdefault(s["place"]["l"], ("unknown",))
            t = b.term(bb)
            if t["k"] == "call" and not t["dest"]["p"]:
                self.env[t["dest"]["l"]] = self.call_expr(t, bb)

    def local_expr(self, local, depth=0):
        if local in self.env:
            return self.env[local]
        if 0 < local <= self.b.arg_count:
            return ("param", local)
        return ("unknown",)



def reduce_proj(e, depth=0):
    """Projections applied to a known aggregate select its operand: `Ready{Failed{i, e}}@Ready.0@Failed.1` is `e`."""
    if depth > 12 or not isinstance(e, tuple):
        return e
    if e[0] == "proj":
        base = reduce_proj(e[1], depth + 1)
        path = list(e[2])
        while path and base[0] == "agg":
            el = path[0]
            if el.startswith("@"):
                if base[1].rsplit("::", 1)[-1] != el[1:]:
                    break
                path.pop(0)
                continue
            if el.startswith(".") and el[1:].isdigit() and int(el[1:]) < len(base[2]):
                base = reduce_proj(base[2][int(el[1:])], depth + 1)
                path.pop(0)
                continue
            if el.startswith(".") and len(base) > 3 and el[1:] in base[3]:
                base = reduce_proj(base[2][list(base[3]).index(el[1:])], depth + 1)
                path.pop(0)
                continue
            break
        if not path:
            return base
        if base[0] == "proj":
            return ("proj", base[1], tuple(base[2]) + tuple(path))
        return ("proj", base, tuple(path))
    return e


def see_through_fn_items(e, depth=0):
    """A callable argument that is a std function item applied to one argument, read as what it computes: `Ok(x)` / `Some(x)` / `Err(x)`
    constructors give the aggregate (and `Ok(x)@Ok.0` is x), `core::convert::identity(x)` is x."""
    if depth > 6 or not isinstance(e, tuple):
        return e
    if e[0] == "proj":
        inner = see_through_fn_items(e[1], depth + 1)
        if inner[0] == "agg" and inner[2] and len(e[2]) >= 2 and e[2][0] == "@" + inner[1].rsplit("::", 1)[-1] and e[2][1] == ".0":
            rest = e[2][2:]
            x = inner[2][0]
            return ("proj", x, rest) if rest and x[0] != "proj" else (("proj", x[1], x[2] + rest) if rest else x)
        if inner is not e[1]:
            if inner[0] == "proj":
                return ("proj", inner[1], inner[2] + e[2])
            return ("proj", inner, e[2])
        return e
    if e[0] == "call" and re.search(r"core::ops::(FnMut::call_mut|FnOnce::call_once|Fn::call)$", e[1] or "") and len(e[2]) == 2:
        f, a = strip_refs(e[2][0]), e[2][1]
        if f[0] == "fn" and a[0] == "agg" and a[1] == "tuple" and len(a[2]) == 1:
            x = see_through_fn_items(a[2][0], depth + 1)
            nm = f[1]
            if re.search(r"core::convert::identity$", nm):
                return x
            m = re.search(r"(?:core::prelude::v1|core::result::Result|core::option::Option)::(Ok|Err|Some)$", nm)
            if m:
                adt = "core::option::Option" if m.group(1) == "Some" else "core::result::Result"
                return ("agg", adt + "::" + m.group(1), (x,), ("0",))
    return e


def path_edge_labels(body, flow, path, j, cache=None):
    """Labels of the CFG edge path[j] -> path[j+1]; a boolean switch on a local with several definitions (`a && b` folded into a
    flag, the verdict of an inlined closure) is read as the definition that reaches it ALONG THIS PATH."""
    a, c = path[j], path[j + 1]
    if cache is not None and a in cache:
        labs = cache[a]
    else:
        labs = flow.edge_labels(a)
        if cache is not None:
            cache[a] = labs
    out = []
    for lab in labs.get(c, []):
        if lab[0] == "bool" and lab[1][0] not in ("call", "binop", "unop", "const"):
            t = body.term(a)
            if t["k"] == "switch":
                e = PathEval(body, path[:j + 1]).operand_expr(t["discr"])
                neg = False
                while e[0] == "unop" and e[1] == "Not":
                    e, neg = e[2], not neg
                if e[0] in ("call", "binop"):
                    lab = ("bool", e, (not lab[2]) if neg else lab[2])
        out.append(lab)
    return out


def const_fold(e, depth=0):
    """Python value (int / bool) of an expression built only from constants, comparisons / arithmetic on them and projections
    out of aggregates of them; None when it is not a constant."""
    if depth > 12 or not isinstance(e, tuple) or not e:
        return None
    e = strip_refs(e)
    k = e[0]
    if k == "const":
        try:
            v = int(e[2])
        except (TypeError, ValueError):
            return None
        return bool(v) if e[1] == "bool" else v
    if k == "proj":
        base = strip_refs(e[1])
        elems = list(e[2])
        while elems and base[0] == "agg":
            el = elems[0]
            if el.startswith("@"):
                if "::" in base[1] and base[1].rsplit("::", 1)[1] != el[1:]:
                    return None
                elems = elems[1:]
                continue
            if el.startswith(".") and el[1:].isdigit() and int(el[1:]) < len(base[2]):
                base = strip_refs(base[2][int(el[1:])])
                elems = elems[1:]
                continue
            if el.startswith(".") and len(base) > 3 and el[1:] in base[3]:
                base = strip_refs(base[2][list(base[3]).index(el[1:])])
                elems = elems[1:]
                continue
            return None
        if elems == [".0"] and base[0] == "binop" and base[1].endswith("WithOverflow"):
            return const_fold(("binop", base[1].replace("WithOverflow", ""), base[2], base[3]), depth + 1)
        return const_fold(base, depth + 1) if not elems else None
    if k == "binop":
        a, b = const_fold(e[2], depth + 1), const_fold(e[3], depth + 1)
        if a is None or b is None:
            return None
        op = e[1].replace("Unchecked", "")
        try:
            return {"Eq": a == b, "Ne": a != b, "Lt": a < b, "Le": a <= b, "Gt": a > b, "Ge": a >= b,
                    "Add": a + b, "Sub": a - b, "Mul": a * b, "BitAnd": a & b, "BitOr": a | b, "BitXor": a ^ b}[op]
        except (KeyError, TypeError):
            return None
    if k == "unop" and e[1] == "Not":
        v = const_fold(e[2], depth + 1)
        return (not v) if isinstance(v, bool) else None
    if k == "cast":
        return const_fold(e[2], depth + 1)
    return None


def _agg_at(e, depth=0):
    """The aggregate an expression denotes after projecting through aggregates (`(0, Busy).1` -> the Busy aggregate)."""
    if depth > 12:
        return None
    e = strip_refs(e)
    if e[0] == "agg":
        return e
    if e[0] == "proj":
        base = _agg_at(e[1], depth + 1)
        for el in e[2]:
            if base is None or base[0] != "agg":
                return None
            if el.startswith("@"):
                if "::" in base[1] and base[1].rsplit("::", 1)[1] != el[1:]:
                    return None
                continue
            if el == "*":
                continue
            if el.startswith(".") and el[1:].isdigit() and int(el[1:]) < len(base[2]):
                base = strip_refs(base[2][int(el[1:])])
            elif el.startswith(".") and len(base) > 3 and el[1:] in base[3]:
                base = strip_refs(base[2][list(base[3]).index(el[1:])])
            else:
                return None
        return base if base is not None and base[0] == "agg" else None
    return None


def path_const_feasible(body, path):
    """False when the path takes, at some switch, an edge that contradicts the constant its operand evaluates to ALONG THIS
    PATH (e.g. `(finished, state) = (0, Busy)` assigned in one arm of an inlined helper, then `finished > 0` taken as true)."""
    pe = PathEval(body, [])
    b = body
    discr_info = {}
    # values computed by arithmetic (a counter stepped in a loop) are NOT folded: the paths are unrolled a bounded number of
    # times, so "the counter is still below its bound" would hold on every explored path and hide the exit that real runs take
    tainted = set()

    def op_tainted(o):
        return isinstance(o, dict) and o.get("k") in ("copy", "move") and o["place"]["l"] in tainted
    for i, bb in enumerate(path):
        for s in b.stmts(bb):
            if s["k"] == "assign" and not s["place"]["p"]:
                rv_ = s["rv"]
                l_ = s["place"]["l"]
                arith = rv_["k"] == "binop" and rv_["op"].replace("WithOverflow", "").replace("Unchecked", "") in ("Add", "Sub", "Mul", "Div", "Rem", "Shl", "Shr")
                dep = any(op_tainted(rv_.get(k_)) for k_ in ("op", "a", "b")) or any(op_tainted(o_) for o_ in rv_.get("ops", [])) or \
                    (rv_["k"] in ("ref", "discr") and rv_["place"]["l"] in tainted)
                if arith or dep:
                    tainted.add(l_)
                else:
                    tainted.discard(l_)
            if s["k"] == "assign" and not s["place"]["p"] and s["rv"]["k"] == "discr":
                discr_info[s["place"]["l"]] = (pe.place_expr(s["rv"]["place"]), s["rv"]["variants"])
            if s["k"] == "assign" and not s["place"]["p"]:
                pe.env[s["place"]["l"]] = pe.rvalue_expr(s["rv"], bb)
            elif s["k"] == "assign" and s["place"]["p"] and not any(e["k"] == "deref" for e in s["place"]["p"]):
                pe.env.setdefault(s["place"]["l"], ("unknown",))
        t = b.term(bb)
        if t["k"] == "call" and not t["dest"]["p"]:
            pe.env[t["dest"]["l"]] = pe.call_expr(t, bb)
        if t["k"] == "call" and not t["dest"]["p"]:
            # the result of a call is not a constant, and a wrapping/checked step of a tainted value stays tainted
            if any(op_tainted(a_) for a_ in t["args"]):
                tainted.add(t["dest"]["l"])
            else:
                tainted.discard(t["dest"]["l"])
        if t["k"] == "switch" and i + 1 < len(path):
            d = t["discr"]
            if op_tainted(d):
                continue
            dty = d.get("place", {}).get("ty") if d["k"] != "const" else d.get("ty")
            v = const_fold(pe.operand_expr(d))
            if v is None and d["k"] in ("copy", "move") and not d["place"]["p"] and d["place"]["l"] in discr_info:
                # the discriminant of a value that is, on this path, an aggregate built as a known variant
                pexp, variants = discr_info[d["place"]["l"]]
                av = _agg_at(pexp)
                if av is not None and av[0] == "agg" and "::" in av[1]:
                    vn = av[1].rsplit("::", 1)[1]
                    vals = [x[0] for x in variants if x[1] == vn]
                    if vals:
                        v = int(vals[0])
            if v is None:
                continue
            nxt = path[i + 1]
            iv = int(v)
            taken = [tb for tv, tb in t["targets"] if str(tv).lstrip("-").isdigit() and int(tv) == iv]
            expect = taken[0] if taken else t["otherwise"]
            if nxt != expect:
                return False
    return True



def one_element_range_feasible(body, flow, path):
    """False when the path treats a `for` loop over a one-element range `a..a + 1` as anything but exactly one iteration
    (first `next` must answer Some, the second None)."""
    visits = {}
    for i in range(len(path) - 1):
        bb = path[i]
        t = body.term(bb)
        if t["k"] != "call" or t["func"]["k"] != "const" or "fn" not in t["func"]:
            continue
        nm = fn_name(t["func"]["fn"]) or ""
        if not ("Range" in nm and nm.endswith("::next")) or not t["args"]:
            continue
        it = strip_refs(flow.operand_expr(t["args"][0]))
        while it[0] == "call" and (it[1] or "").endswith("into_iter") and it[2]:
            it = strip_refs(it[2][0])
        if not (it[0] == "agg" and it[1].endswith("Range::Range") and len(it[2]) == 2):
            continue
        lo, hi = it[2]
        if hi[0] == "proj" and hi[2] == (".0",):
            hi = hi[1]
        if not (hi[0] == "binop" and hi[1] in ("Add", "AddWithOverflow", "AddUnchecked") and hi[2] == lo and hi[3][0] == "const" and hi[3][2] == "1"):
            continue
        visits[bb] = visits.get(bb, 0) + 1
        # which arm does the path take after this call?
        dest = place_str(t["dest"])
        arm = None
        for j in range(i + 1, min(i + 6, len(path) - 1)):
            for lab in flow.edge_labels(path[j]).get(path[j + 1], []):
                if lab[0] == "variant" and place_str(lab[3]) == dest and lab[2] in ("Some", "None"):
                    arm = lab[2]
            if arm:
                break
        if arm is None:
            continue
        if (visits[bb] == 1 and arm != "Some") or (visits[bb] >= 2 and arm != "None"):
            return False
    return True



def loop_over_one_element_range(body, flow, loop_blocks):
    """The loop is driven by `Range::next` of a range `a..a + 1`: exactly one iteration."""
    for bb in loop_blocks:
        t = body.term(bb)
        if t["k"] != "call" or t["func"]["k"] != "const" or "fn" not in t["func"] or not t["args"]:
            continue
        nm = fn_name(t["func"]["fn"]) or ""
        if not ("Range" in nm and nm.endswith("::next")):
            continue
        it = strip_refs(flow.operand_expr(t["args"][0]))
        while it[0] == "call" and (it[1] or "").endswith("into_iter") and it[2]:
            it = strip_refs(it[2][0])
        if it[0] == "agg" and it[1].endswith("Range::Range") and len(it[2]) == 2:
            lo, hi = it[2]
            if hi[0] == "proj" and hi[2] == (".0",):
                hi = hi[1]
            if hi[0] == "binop" and hi[1] in ("Add", "AddWithOverflow", "AddUnchecked") and hi[2] == lo and hi[3][0] == "const" and hi[3][2] == "1":
                return True
    return False


# ---------------------------------------------------------------------- iterator-loop helpers

ADAPTOR_OK = ("into_iter", "iter_mut", "iter", "enumerate", "rev", "filter", "by_ref", "as_mut", "deref_mut", "deref",
              "get_unchecked_mut", "as_mut_slice", "as_slice", "new", "new_unchecked", "get_mut", "as_mut_ptr")


def iterator_chain(expr):
    """Names of the calls from an iterator expression down to its source: [(short_name, full_name), ...], source_expr."""
    chain = []
    x = strip_refs(expr)
    while x[0] == "call" and x[2]:
        nm = x[1] or "?"
        chain.append((nm.split("::")[-1], nm))
        x = strip_refs(x[2][0])
    return chain, x


def loop_exit_edges(body, flow, next_bb):
    """Exit edges (a, b) of the natural loop(s) containing block `next_bb`, on normal edges, with the label
    knowledge whether the edge is the `None` outcome of the iterator call at next_bb."""
    res = []
    loops = [(h, blk) for h, blk in body.loops().items() if next_bb in blk]
    if not loops:
        return None
    # innermost loop containing the call
    h, blk = min(loops, key=lambda x: len(x[1]))
    dest = place_str(body.term(next_bb)["dest"])
    for a in blk:
        if body.is_cleanup(a):
            continue
        for b in body.normal_succ(a):
            if b in blk:
                continue
            if body.term(b)["k"] == "unreachable":
                continue
            labs = flow.edge_labels(a).get(b, [])
            is_none = any(l[0] == "variant" and place_str(l[3]) == dest and l[2] == "None" for l in labs)
            if not is_none:
                # `iter.next()?`: the Break edge of Try::branch applied to this very next() result
                for l in labs:
                    if l[0] == "variant" and l[2] == "Break" and l[1][0] == "call" and (l[1][1] or "").endswith("::branch") \
                            and l[1][2] and l[1][2][0][0] == "call" and l[1][2][0][3] == next_bb:
                        is_none = True
            res.append((a, b, is_none))
    return res


def path_bool_labels(body, flow, path):
    """[(expr, bool)] for the boolean switch edges taken along `path`."""
    out = []
    for i in range(len(path) - 1):
        labs = flow.edge_labels(path[i]).get(path[i + 1], [])
        for lab in labs:
            if lab[0] == "bool":
                out.append((lab[1], lab[2]))
    return out


def arrival_knowledge(body, flow, target_bb, loop_visits=2, const_feasible=False):
    """Variant knowledge (place_str -> variant) at entry of `target_bb` on every flag/variant-feasible path that
    reaches it (deduplicated).  With const_feasible, arrivals whose path contradicts a constant / variant it carries itself (the
    verdict enum of an inlined helper re-matched after a join) are left out."""
    out = []
    seen = set()
    for kind, path, know in sensitive_paths(body, flow, loop_visits):
        for i, bb in enumerate(path):
            if bb == target_bb:
                if const_feasible and not path_const_feasible(body, path[:i + 1]):
                    continue
                key = tuple(sorted(know[i].items()))
                if key not in seen:
                    seen.add(key)
                    out.append(know[i])
    return out


def expr_shape(e, depth=0):
    """Structural rendering of an expression that ignores where its calls sit in the CFG (two evaluations of the same
    pure computation -- e.g. an inlined offset helper -- have the same shape)."""
    if depth > 300:
        return "..."
    k = e[0]
    if k == "call":
        return "%s(%s)" % (e[1], ",".join(expr_shape(a, depth + 1) for a in e[2]))
    if k == "icall":
        return "(%s)(%s)" % (expr_shape(e[1], depth + 1), ",".join(expr_shape(a, depth + 1) for a in e[2]))
    if k == "proj":
        return "%s%s" % (expr_shape(e[1], depth + 1), "".join(e[2]))
    if k == "ref":
        return "&" + expr_shape(e[1], depth + 1)
    if k == "binop":
        return "%s(%s,%s)" % (e[1], expr_shape(e[2], depth + 1), expr_shape(e[3], depth + 1))
    if k in ("unop",):
        return "%s(%s)" % (e[1], expr_shape(e[2], depth + 1))
    if k == "cast":
        return "cast(%s)" % expr_shape(e[2], depth + 1)
    if k == "agg":
        return "%s{%s}" % (e[1], ",".join(expr_shape(a, depth + 1) for a in e[2]))
    if k == "discr":
        return "discr(%s)" % expr_shape(e[1], depth + 1)
    return repr(e)


def only_via(body, flow, edge_pred, start=0):
    """Non-cleanup blocks that are reachable from `start` only across an edge whose label satisfies `edge_pred(label)`
    (must-pass-through an establishing edge: what remains reachable after removing those edges is the complement)."""
    seen = set()
    work = [start]
    while work:
        x = work.pop()
        if x in seen:
            continue
        seen.add(x)
        labs = flow.edge_labels(x)
        for y in body.normal_succ(x):
            if any(edge_pred(l_) for l_ in labs.get(y, [])):
                continue
            work.append(y)
    return {x for x in range(body.n) if x not in seen and not body.is_cleanup(x)}


def all_arrivals_cross(body, flow, target_bb, edge_pred, loop_visits=2):
    """Every flag/variant-feasible path that reaches `target_bb` crosses, before arriving, an edge whose label satisfies
    edge_pred.  Returns (ok, number of arrivals, offending path or None)."""
    labels = {}
    n = 0
    for kind, path, know in sensitive_paths(body, flow, loop_visits):
        for i, bb in enumerate(path):
            if bb != target_bb:
                continue
            n += 1
            crossed = False
            for j in range(i):
                a, b_ = path[j], path[j + 1]
                if a not in labels:
                    labels[a] = flow.edge_labels(a)
                if any(edge_pred(l_) for l_ in labels[a].get(b_, [])):
                    crossed = True
                    break
            if not crossed:
                return False, n, path[:i + 1]
    return n > 0, n, None


def all_arrivals_cross_cf(body, flow, target_bb, edge_pred, loop_visits=2):
    """all_arrivals_cross over the paths that are also constant-feasible (a path that contradicts a constant or a variant it
    carries itself through an aggregate -- the verdict of an inlined helper re-tested after a join -- is no arrival)."""
    labels = {}
    n = 0
    for kind, path, know in sensitive_paths(body, flow, loop_visits):
        if target_bb not in path:
            continue
        i = path.index(target_bb)
        if not path_const_feasible(body, path[:i + 1]):
            continue
        n += 1
        crossed = False
        for j in range(i):
            a, b_ = path[j], path[j + 1]
            if a not in labels:
                labels[a] = flow.edge_labels(a)
            if any(edge_pred(l_) for l_ in labels[a].get(b_, [])):
                crossed = True
                break
        if not crossed:
            return False, n, path[:i + 1]
    return n > 0, n, None


def all_arrivals_visit(body, flow, target_bb, via_bb, loop_visits=2):
    """`via_bb` dominates `target_bb`, or -- when a join with infeasible arms lies between -- every flag/variant-feasible
    path that reaches target_bb visited via_bb before (after the previous visit of target_bb)."""
    if body.dominates(via_bb, target_bb):
        return True
    n = 0
    for kind, path, know in sensitive_paths(body, flow, loop_visits):
        last_t = -1
        for i, bb in enumerate(path):
            if bb != target_bb:
                continue
            n += 1
            if via_bb not in path[last_t + 1:i]:
                return False
            last_t = i
    return n > 0


def all_arrivals_via_edge(body, flow, target_bb, edges, loop_visits=2):
    """Every flag/variant-feasible path reaching target_bb took one of the CFG edges in `edges` [(a, b), ..] before."""
    edges = set(edges)
    if any(len(body.pred[b]) == 1 and body.dominates(b, target_bb) for (a, b) in edges):
        return True
    n = 0
    for kind, path, know in sensitive_paths(body, flow, loop_visits):
        for i, bb in enumerate(path):
            if bb != target_bb:
                continue
            n += 1
            if not any((path[j], path[j + 1]) in edges for j in range(i)):
                return False
    return n > 0


def path_exprs(body, flow, site_bb, operand, loop_visits=2, limit=400):
    """Distinct expressions of `operand` (used in block site_bb) over the flag/variant-feasible paths reaching site_bb, every
    local resolved to its latest definition on that path."""
    out = []
    seen_prefix = set()
    for kind, path, know in sensitive_paths(body, flow, loop_visits):
        if site_bb not in path:
            continue
        i = path.index(site_bb)
        key = tuple(path[:i + 1])
        if key in seen_prefix:
            continue
        seen_prefix.add(key)
        if len(seen_prefix) > limit:
            break
        e = PathEval(body, list(key)).operand_expr(operand)
        if e not in out:
            out.append(e)
    return out
