#!/usr/bin/env python3
"""./check <Cxx> [--tier quick|thorough] [--replay file] [--repo dir] [--facts file]

Decides one property statically: extracts the type-checked program + MIR of the
repository's *current working tree* with the fbfacts rustc driver, runs the
property's rule set, writes evidence/<id>.json, prints KNOWN-FINDING / VIOLATION
lines, exit 0/1 per the interface.  No code of the crate is executed.
"""
import argparse
import importlib
import json
import os
import shutil
import sys
import time
import traceback

HERE = os.path.dirname(os.path.abspath(__file__))
sys.path.insert(0, HERE)
VERIF = os.path.dirname(os.path.dirname(HERE))

from lib_facts import Facts  # noqa: E402
from framework import Ctx, AnchorLost, finish  # noqa: E402
import extract  # noqa: E402

TRUSTED = [
    "rustc 1.97.0-nightly front end, type checker and MIR construction (dev profile, -Zmir-opt-level=0)",
    "fbfacts driver (engine/fbfacts) faithfully serialises rustc's MIR and resolved callees",
    "semantics of core/alloc APIs as summarised in the rule tables (Pin::set = drop in place + write, mem::replace, Box/Vec/BinaryHeap)",
    "pin-project-lite projections",
    "cordyceps MpscQueue (FIFO, single-consumer try_dequeue_unchecked), diatomic-waker register/notify handshake, spin SpinMutex",
]


def main():
    ap = argparse.ArgumentParser()
    ap.add_argument("prop")
    ap.add_argument("--tier", default=os.environ.get("VERIF_TIER", "quick"))
    ap.add_argument("--replay")
    ap.add_argument("--repo", default=os.environ.get("VERIF_REPO", "/repo"))
    ap.add_argument("--facts", help="use an existing fact file (development only)")
    ap.add_argument("--evidence-dir", default=os.path.join(VERIF, "evidence"))
    ap.add_argument("--no-mutants", action="store_true")
    a = ap.parse_args()
    prop = a.prop.upper()
    tier = a.tier if a.tier in ("quick", "thorough") else "quick"
    seed = int(os.environ.get("VERIF_SEED", "0") or 0)
    t0 = time.time()

    if a.replay:
        with open(a.replay) as fh:
            j = json.load(fh)
        print("replay of %s (recorded violations; re-running the check on the current tree follows)" % a.replay)
        for v in j.get("violations", []):
            print("  recorded: %s at %s -- %s" % (v.get("key"), v.get("loc"), v.get("detail")))

    if tier == "thorough":
        import lib_flow
        lib_flow.EXTRA_VISITS = max(lib_flow.EXTRA_VISITS, 1)   # every loop unrolled once more than in the quick tier
    mod = importlib.import_module(prop.lower())
    configs = ["default"] if tier == "quick" else ["default", "noassert", "cfgmiri"]
    scratch = None
    ctxs = []
    anchor_lost = None
    extra = {}
    try:
        for cfg in configs:
            if a.facts and cfg == "default":
                ff = a.facts
            else:
                ff, scratch = extract.extract(a.repo, cfg, scratch)
            facts = Facts.load(ff)
            ctx = Ctx(facts, prop, tier, cfg)
            try:
                mod.run(ctx)
                if cfg == "default" and getattr(mod, "WITNESSES", False) and (tier == "thorough" or getattr(mod, "WITNESSES") == "quick"):
                    import witness
                    extra["witnesses"] = witness.add_obligations(ctx, a.repo, prop)
            except AnchorLost as e:
                anchor_lost = "%s (config %s)" % (e, cfg)
            ctxs.append(ctx)
            if cfg == "default":
                extra["dependency_versions"] = [d["name"] + "@" + d["hash"] for d in facts.deps
                                                if d["name"] in ("cordyceps", "diatomic_waker", "spin", "futures_core", "pin_project_lite")]
                extra["mir_bodies"] = len(facts.body_list)
                extra["canonicalisation"] = {"private_helpers_inlined": facts.inlined.get("call_sites_inlined", {}),
                                             "std_combinators_expanded": facts.inlined.get("combinator_closures", {}),
                                             "analysed_in_place_only": facts.inlined.get("fully_inlined", [])}
                import lib_flow as _lf
                extra["loop_unrolling"] = "path rules visit every block at most %d (+%d for the adapter model) times" % (2 + _lf.EXTRA_VISITS, 1)
        if tier == "thorough" and hasattr(mod, "thorough"):
            extra.update(mod.thorough(ctxs, a) or {})
        if tier == "thorough" and prop in ("C01", "C03") and not a.no_mutants:
            try:
                import deps_audit
                extra.update(deps_audit.audit(a.repo))
            except Exception as e:  # trusted-base fingerprint is informational
                extra["dependency_audit_error"] = repr(e)
        if tier == "thorough" and not a.no_mutants:
            try:
                import mutants
                extra.update(mutants.sensitivity(prop, a.repo))
            except Exception as e:  # sensitivity run is diagnostic only
                extra["mutants_error"] = repr(e)
    except Exception as e:
        traceback.print_exc()
        print("CHECKER-ERROR property=%s %r" % (prop, e))
        # fail closed: an unanalysable tree is not reported as verified
        anchor_lost = "checker error: %r" % (e,)
        if not ctxs:
            ctxs = [Ctx(Facts({"crate": "?", "types": {}, "bodies": [], "adts": [], "impls": [], "fns": [],
                               "debug_assertions": True, "overflow_checks": True, "test_harness": False, "deps": []}),
                        prop, tier, "none")]
    finally:
        if scratch:
            shutil.rmtree(scratch, ignore_errors=True)
    rc = finish(ctxs, prop, tier, seed, t0, os.path.join(VERIF, "known_findings.json"), a.evidence_dir,
                mod.EXPLANATION, mod.ASSUMPTIONS, TRUSTED, extra=extra, anchor_lost=anchor_lost,
                checker_cmd="./check %s --tier %s" % (prop, tier))
    sys.exit(rc)


if __name__ == "__main__":
    main()
