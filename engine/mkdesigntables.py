#!/usr/bin/env python3
"""Developer tool: markdown tables for DESIGN.md §12 from seeded/RESULTS.json, seeded/*/meta.json and benign/*/meta.json."""
import glob, json, os, sys
V = os.path.dirname(os.path.dirname(os.path.abspath(__file__)))


def cell(s, n):
    s = " ".join(str(s).split()).replace("|", "/")
    return s[:n]


def seeds(suffixes):
    res = {r["seed"]: r for r in json.load(open(os.path.join(V, "seeded", "RESULTS.json")))}
    print("| seed | property | change (author's summary) | needs to manifest | reported by own check through | also reported by |")
    print("|------|----------|---------------------------|-------------------|-------------------------------|------------------|")
    for d in sorted(glob.glob(os.path.join(V, "seeded", "*"))):
        n = os.path.basename(d)
        if not os.path.isdir(d) or n[-1] not in suffixes:
            continue
        m = json.load(open(os.path.join(d, "meta.json")))
        r = res.get(n, {})
        own = m.get("property")
        rules = sorted({v.split("|")[0] for v in r.get("details", {}).get(own, [])})
        others = [p for p in r.get("reported_by", []) if p != own]
        print("| %s | %s | %s | %s | %s | %s |" % (n, own, cell(m.get("summary", ""), 150), cell(m.get("needs_to_manifest", ""), 130),
                                                 ", ".join(rules) or "-", ", ".join(others) or "–"))


def benign():
    res = {r["seed"]: r for r in json.load(open(os.path.join(V, "benign", "RESULTS.json")))}
    print("| refactoring | files | summary | checks reporting (must be none) |")
    print("|-------------|-------|---------|---------------------------------|")
    for d in sorted(glob.glob(os.path.join(V, "benign", "*"))):
        n = os.path.basename(d)
        if not os.path.isdir(d):
            continue
        m = json.load(open(os.path.join(d, "meta.json")))
        r = res.get(n, {})
        print("| %s | %s | %s | %s |" % (n, cell(", ".join(x.replace("src/", "") for x in m.get("files", [])), 60), cell(m.get("summary", ""), 170),
                                      ", ".join(r.get("reported_by", [])) or "none"))


if __name__ == "__main__":
    if sys.argv[1] == "seeds":
        seeds(sys.argv[2])
    else:
        benign()
