//! Demonstrations of the genuine defects listed in /verif/known_findings.json.
//! NOT part of any registered check (the checks are static); these were run by
//! hand in a scratch worktree to show each defect against the real code:
//!   cp defect_demos.rs <worktree>/tests/ && cargo test --offline --test defect_demos
//! d1*, d2, d5*, d6, d7* fail on the pinned snapshot and pass after the `fix:` commits;
//! d3 and d4* fail on both (recorded as known findings).
use futures::stream::{self, Stream, StreamExt};
use futures::task::noop_waker_ref;
use futures_buffered::*;
use std::cell::Cell;
use std::future::{pending, ready, Future};
use std::pin::Pin;
use std::rc::Rc;
use std::task::{Context, Poll};

struct DropCounter(Rc<Cell<usize>>);
impl Drop for DropCounter {
    fn drop(&mut self) {
        self.0.set(self.0.get() + 1);
    }
}

type BoxFut<T> = Pin<Box<dyn Future<Output = T>>>;

#[test]
fn d1_join_all_dropped_early_leaks_outputs() {
    let drops = Rc::new(Cell::new(0));
    let d = DropCounter(drops.clone());
    let futs: Vec<BoxFut<Option<DropCounter>>> =
        vec![Box::pin(ready(Some(d))), Box::pin(pending())];
    let mut j = join_all(futs);
    let mut cx = Context::from_waker(noop_waker_ref());
    assert!(Pin::new(&mut j).poll(&mut cx).is_pending());
    drop(j);
    assert_eq!(drops.get(), 1, "output produced before the early drop must be dropped");
}

#[test]
fn d1_try_join_all_err_leaks_outputs() {
    let drops = Rc::new(Cell::new(0));
    let d = DropCounter(drops.clone());
    let futs: Vec<BoxFut<Result<DropCounter, ()>>> =
        vec![Box::pin(ready(Ok(d))), Box::pin(ready(Err(())))];
    let mut j = try_join_all(futs);
    let mut cx = Context::from_waker(noop_waker_ref());
    assert!(matches!(Pin::new(&mut j).poll(&mut cx), Poll::Ready(Err(()))));
    drop(j);
    assert_eq!(drops.get(), 1, "Ok output collected before the Err must be dropped");
}

#[test]
fn d2_try_join_all_polled_after_err_returns_uninit() {
    let futs: Vec<BoxFut<Result<u32, ()>>> =
        vec![Box::pin(ready(Err(()))), Box::pin(ready(Ok(7)))];
    let mut j = try_join_all(futs);
    let mut cx = Context::from_waker(noop_waker_ref());
    assert!(matches!(Pin::new(&mut j).poll(&mut cx), Poll::Ready(Err(()))));
    let second = std::panic::catch_unwind(std::panic::AssertUnwindSafe(|| {
        match Pin::new(&mut j).poll(&mut cx) {
            Poll::Ready(Ok(v)) => v.len(),
            _ => 0,
        }
    }));
    // a panic (poll after completion) or anything but a 2-element Vec is fine:
    // element 0 of such a Vec was never produced by any input (uninitialised memory)
    assert_ne!(second.unwrap_or(0), 2, "Vec handed out with an element no input produced");
}

#[test]
fn d5_ordered_bounded_new_zero() {
    let q: FuturesOrderedBounded<std::future::Ready<()>> = FuturesOrderedBounded::new(0);
    assert_eq!(q.len(), 0);
}

#[test]
fn d5_ordered_with_capacity_zero() {
    let q: FuturesOrdered<std::future::Ready<()>> = FuturesOrdered::with_capacity(0);
    assert_eq!(q.len(), 0);
}

#[test]
fn d6_buffered_ordered_backlog_is_bounded() {
    let pulled = Rc::new(Cell::new(0usize));
    let p2 = pulled.clone();
    let upstream = stream::iter(0usize..).map(move |i| -> BoxFut<usize> {
        p2.set(p2.get() + 1);
        if i == 0 {
            Box::pin(pending())
        } else {
            Box::pin(ready(i))
        }
    });
    let mut s = upstream.buffered_ordered(4);
    let mut cx = Context::from_waker(noop_waker_ref());
    for _ in 0..50 {
        assert!(s.poll_next_unpin(&mut cx).is_pending());
    }
    assert!(pulled.get() <= 4, "pulled {} items with limit 4 and nothing yielded", pulled.get());
}

#[test]
fn d7_try_buffered_unordered_size_hint_after_upstream_end() {
    let futs: Vec<Result<BoxFut<Result<u32, ()>>, ()>> = vec![Ok(Box::pin(pending()))];
    let mut s = stream::iter(futs).try_buffered_unordered(2);
    let mut cx = Context::from_waker(noop_waker_ref());
    assert!(s.poll_next_unpin(&mut cx).is_pending());
    // upstream is exhausted, one future in flight that may still yield an item
    let (_, upper) = Stream::size_hint(&s);
    assert!(upper.map_or(true, |u| u >= 1), "upper bound {:?} with one future in flight", upper);
}

#[test]
fn d7_try_buffered_ordered_size_hint_after_upstream_end() {
    let futs: Vec<Result<BoxFut<Result<u32, ()>>, ()>> = vec![Ok(Box::pin(pending()))];
    let mut s = stream::iter(futs).try_buffered_ordered(2);
    let mut cx = Context::from_waker(noop_waker_ref());
    assert!(s.poll_next_unpin(&mut cx).is_pending());
    let (_, upper) = Stream::size_hint(&s);
    assert!(upper.map_or(true, |u| u >= 1), "upper bound {:?} with one future in flight", upper);
}

#[test]
fn d3_for_each_concurrent_zero_means_no_limit() {
    let calls = Rc::new(Cell::new(0usize));
    let c2 = calls.clone();
    let mut f = Box::pin(BufferedStreamExt::for_each_concurrent(stream::iter(0..3), 0, move |_| {
        c2.set(c2.get() + 1);
        ready(())
    }));
    let mut cx = Context::from_waker(noop_waker_ref());
    let r = f.as_mut().poll(&mut cx);
    assert!(r.is_ready() && calls.get() == 3, "documented: 0 = no limit; got {:?}, closure called {} times", r, calls.get());
}

struct AlwaysReadyOnce;
impl Future for AlwaysReadyOnce {
    type Output = ();
    fn poll(self: Pin<&mut Self>, _: &mut Context<'_>) -> Poll<()> {
        Poll::Ready(())
    }
}

#[test]
fn d4_futures_unordered_cross_group_starvation() {
    // group 0 (32 slots): a victim that counts its polls; group 1 (64 slots): kept permanently busy
    let polls = Rc::new(Cell::new(0usize));
    let p2 = polls.clone();
    let victim: BoxFut<()> = Box::pin(std::future::poll_fn(move |cx| {
        p2.set(p2.get() + 1);
        cx.waker().wake_by_ref();
        Poll::<()>::Pending
    }));
    let mut q: FuturesUnordered<BoxFut<()>> = FuturesUnordered::new();
    q.push(victim);
    for _ in 0..31 {
        q.push(Box::pin(pending()));
    }
    // 33rd push opens group 1
    q.push(Box::pin(AlwaysReadyOnce));
    let mut cx = Context::from_waker(noop_waker_ref());
    // first poll: group 0 (victim polled once, pending) then group 1 yields
    assert!(q.poll_next_unpin(&mut cx).is_ready());
    let base = polls.get();
    for _ in 0..10_000 {
        q.push(Box::pin(AlwaysReadyOnce)); // lands in the last group, which the cursor sits on
        assert!(q.poll_next_unpin(&mut cx).is_ready());
    }
    assert!(polls.get() > base, "woken victim in group 0 polled {} times in 10000 polls", polls.get() - base);
}

#[test]
fn d4_merge_unbounded_cross_group_starvation() {
    let polls = Rc::new(Cell::new(0usize));
    let p2 = polls.clone();
    type S = Pin<Box<dyn futures::Stream<Item = u32>>>;
    let victim: S = Box::pin(stream::poll_fn(move |cx| {
        p2.set(p2.get() + 1);
        cx.waker().wake_by_ref();
        Poll::<Option<u32>>::Pending
    }));
    let mut m: MergeUnbounded<S> = MergeUnbounded::new();
    m.push(victim);
    for _ in 0..31 {
        m.push(Box::pin(stream::pending()));
    }
    m.push(Box::pin(stream::repeat(1))); // group 1: always ready
    let mut cx = Context::from_waker(noop_waker_ref());
    assert!(m.poll_next_unpin(&mut cx).is_ready());
    let base = polls.get();
    for _ in 0..10_000 {
        assert!(m.poll_next_unpin(&mut cx).is_ready());
    }
    assert!(polls.get() > base, "woken victim in group 0 polled {} times in 10000 polls", polls.get() - base);
}


#[test]
fn d8_merge_unbounded_ends_when_two_groups_end_in_one_pass() {
    // 33 sources = two groups (32 + 1).  An item from the last group leaves the cursor there (before the D4 repair) /
    // one past it (after); then every source ends.  Before the repair (586a86a) the next poll answered Pending with
    // nothing registered although no source was left.
    use futures::channel::mpsc;
    let mut cx = Context::from_waker(noop_waker_ref());
    let mut txs = Vec::new();
    let mut m = MergeUnbounded::new();
    for _ in 0..33 {
        let (tx, rx) = mpsc::unbounded::<u32>();
        txs.push(tx);
        m.push(rx);
    }
    assert!(m.poll_next_unpin(&mut cx).is_pending());
    txs[32].unbounded_send(7).unwrap();
    assert_eq!(m.poll_next_unpin(&mut cx), Poll::Ready(Some(7)));
    drop(txs);
    assert_eq!(m.poll_next_unpin(&mut cx), Poll::Ready(None), "every source has ended");
}
